// ===========================================================================
// prelude/merge_spec.rs — specification vocabulary of unit `merge` (C05, C07
// refusal part, C08 scan part).  Pure spec text and PROVED lemmas only: no
// assumption lives in this file.  Included at top level (it talks about the
// extracted `EventRecord`, `CommitProof`).
// ===========================================================================

// ---- records ----------------------------------------------------------------
/// What a row of an event log IS for the three properties: time stamp, commit
/// hash (SHA-256 of the event bytes; `EventRecord::encode_event`) and event
/// bytes.  The stored `last_commit` field is not part of the abstract row: it is
/// a function of the row's position (`apply_records` overwrites it with the
/// previous commit on every append, crates/filesystem/src/event_log.rs
/// `record.set_last_commit(last_commit_hash)`).
pub ghost struct Rec { pub time: Instant, pub commit: Seq<u8>, pub event: Seq<u8> }

impl View for EventRecord {
    type V = Rec;
    open spec fn view(&self) -> Rec { Rec { time: self.0.0@, commit: self.2.0@, event: self.3@ } }
}
/// abstract rows of a vector of records
pub open spec fn rv(v: Seq<EventRecord>) -> Seq<Rec> { Seq::new(v.len(), |i: int| v[i]@) }
/// the commit column
pub open spec fn commits(s: Seq<Rec>) -> Seq<Seq<u8>> { Seq::new(s.len(), |i: int| s[i].commit) }

/// `Ord for OffsetDateTime` (time-0.3 `offset_date_time.rs`: compares the UTC
/// instants): lexicographic on (unix seconds, nanosecond)
pub open spec fn time_le(a: Instant, b: Instant) -> bool {
    a.secs < b.secs || (a.secs == b.secs && a.nanos <= b.nanos)
}
pub open spec fn time_lt(a: Instant, b: Instant) -> bool {
    a.secs < b.secs || (a.secs == b.secs && a.nanos < b.nanos)
}
pub open spec fn time_sorted(s: Seq<Rec>) -> bool {
    forall|i: int, j: int| 0 <= i < j < s.len() ==> time_le(s[i].time, s[j].time)
}
/// `p` is a permutation of `0..n`
pub open spec fn is_perm(p: Seq<int>, n: nat) -> bool {
    &&& p.len() == n
    &&& forall|i: int| 0 <= i < n ==> 0 <= #[trigger] p[i] < n
    &&& forall|i: int, j: int| 0 <= i < j < n ==> p[i] != p[j]
}
/// `out` is THE stable sort of `inp` by time: `out[i] == inp[p[i]]` for a
/// permutation `p` under which rows are ordered by (time, original position)
pub open spec fn stable_sort_witness(out: Seq<Rec>, inp: Seq<Rec>, p: Seq<int>) -> bool {
    &&& is_perm(p, inp.len())
    &&& out.len() == inp.len()
    &&& forall|i: int| 0 <= i < out.len() ==> #[trigger] out[i] == inp[p[i]]
    &&& forall|i: int, j: int| 0 <= i < j < out.len() ==>
            time_lt(out[i].time, out[j].time) || (out[i].time == out[j].time && #[trigger] p[i] < #[trigger] p[j])
}
pub open spec fn is_stable_time_sort_of(out: Seq<Rec>, inp: Seq<Rec>) -> bool {
    exists|p: Seq<int>| stable_sort_witness(out, inp, p)
}

// ---- commit sets / multiplicities ---------------------------------------------
pub open spec fn has_commit(s: Seq<Rec>, c: Seq<u8>) -> bool {
    exists|i: int| 0 <= i < s.len() && #[trigger] s[i].commit == c
}
pub open spec fn commit_set(s: Seq<Rec>) -> ISet<Seq<u8>> { ISet::new(|c: Seq<u8>| has_commit(s, c)) }
/// how many rows of `s` carry commit `c`
pub open spec fn cnt(s: Seq<Rec>, c: Seq<u8>) -> nat
    decreases s.len(),
{
    if s.len() == 0 { 0 } else { cnt(s.drop_last(), c) + (if s.last().commit == c { 1nat } else { 0nat }) }
}
pub open spec fn no_dup(s: Seq<Rec>) -> bool {
    forall|i: int, j: int| #![auto] 0 <= i < j < s.len() ==> s[i].commit != s[j].commit
}
/// C05 "every event committed on any device since that ancestor is present
/// exactly once in the converged log (byte-identical events made independently
/// count as one) ... and nothing else is added", on the commit column
pub open spec fn is_commit_union(m: Seq<Rec>, l: Seq<Rec>, r: Seq<Rec>) -> bool {
    forall|c: Seq<u8>| #[trigger] cnt(m, c) == (if has_commit(l, c) || has_commit(r, c) { 1nat } else { 0nat })
}

pub proof fn lemma_cnt_zero(s: Seq<Rec>, c: Seq<u8>)
    ensures (cnt(s, c) == 0) <==> !has_commit(s, c),
    decreases s.len(),
{
    if s.len() > 0 {
        lemma_cnt_zero(s.drop_last(), c);
        let d = s.drop_last();
        if has_commit(d, c) {
            let i = choose|i: int| 0 <= i < d.len() && #[trigger] d[i].commit == c;
            assert(s[i].commit == c);
        }
        if has_commit(s, c) && s.last().commit != c {
            let i = choose|i: int| 0 <= i < s.len() && #[trigger] s[i].commit == c;
            assert(d[i].commit == c);
        }
        if s.last().commit == c { assert(s[s.len() - 1].commit == c); }
    }
}
pub proof fn lemma_cnt_no_dup(s: Seq<Rec>, c: Seq<u8>)
    requires no_dup(s),
    ensures cnt(s, c) == (if has_commit(s, c) { 1nat } else { 0nat }),
    decreases s.len(),
{
    lemma_cnt_zero(s, c);
    if s.len() > 0 {
        let d = s.drop_last();
        assert(no_dup(d)) by {
            assert forall|i: int, j: int| #![auto] 0 <= i < j < d.len() implies d[i].commit != d[j].commit by {
                assert(s[i].commit != s[j].commit);
            }
        }
        lemma_cnt_no_dup(d, c);
        lemma_cnt_zero(d, c);
        if s.last().commit == c && has_commit(d, c) {
            let i = choose|i: int| 0 <= i < d.len() && #[trigger] d[i].commit == c;
            assert(s[i].commit != s[s.len() - 1].commit);
        }
    }
}
/// `cnt` distributes over concatenation
pub proof fn lemma_cnt_concat(a: Seq<Rec>, b: Seq<Rec>, c: Seq<u8>)
    ensures cnt(a + b, c) == cnt(a, c) + cnt(b, c),
    decreases b.len(),
{
    if b.len() == 0 {
        assert(a + b =~= a);
    } else {
        assert((a + b).drop_last() =~= a + b.drop_last());
        assert((a + b).last() == b.last());
        lemma_cnt_concat(a, b.drop_last(), c);
    }
}
/// a permutation image keeps every multiplicity (used for the sorted result)
pub proof fn lemma_cnt_multiset(a: Seq<Rec>, b: Seq<Rec>, c: Seq<u8>)
    requires a.to_multiset() == b.to_multiset(),
    ensures cnt(a, c) == cnt(b, c),
    decreases a.len(),
{
    broadcast use vstd::seq_lib::group_to_multiset_ensures;
    a.to_multiset_ensures();
    b.to_multiset_ensures();
    if a.len() == 0 {
        if b.len() > 0 { assert(b.to_multiset().count(b[0]) > 0); assert(a.to_multiset().count(b[0]) == 0); }
    } else {
        let x = a.last();
        assert(a.to_multiset().count(x) > 0) by { assert(a.contains(x)); }
        assert(b.contains(x));
        let k = choose|k: int| 0 <= k < b.len() && b[k] == x;
        let b2 = b.remove(k);
        let a2 = a.drop_last();
        assert(a =~= a2.push(x));
        assert(a2.to_multiset() =~= a.to_multiset().remove(x)) by {
            assert(a2.push(x).to_multiset() =~= a2.to_multiset().insert(x));
        }
        vstd::seq_lib::to_multiset_remove(b, k);
        assert(b2.to_multiset() =~= b.to_multiset().remove(x));
        lemma_cnt_multiset(a2, b2, c);
        // cnt(b) == cnt(b2) + [x.commit == c]
        assert(b =~= b.take(k) + seq![x] + b.skip(k + 1));
        assert(b2 =~= b.take(k) + b.skip(k + 1));
        lemma_cnt_concat(b.take(k), seq![x], c);
        lemma_cnt_concat(b.take(k) + seq![x], b.skip(k + 1), c);
        lemma_cnt_concat(b.take(k), b.skip(k + 1), c);
        assert(cnt(seq![x], c) == (if x.commit == c { 1nat } else { 0nat })) by {
            assert(seq![x].drop_last() =~= Seq::<Rec>::empty());
            reveal_with_fuel(cnt, 2);
        }
    }
}

/// std meaning of `$b.into_iter().filter(|r| !$set.contains(r.commit()))`: the rows of
/// `s` whose commit is NOT in `cs`, in order
pub open spec fn drop_commits(s: Seq<Rec>, cs: ISet<Seq<u8>>) -> Seq<Rec>
    decreases s.len(),
{
    if s.len() == 0 { Seq::empty() } else {
        let p = drop_commits(s.drop_last(), cs);
        if cs.contains(s.last().commit) { p } else { p.push(s.last()) }
    }
}
/// filtering removes exactly the rows with a commit in `cs`
pub proof fn lemma_drop_commits_cnt(s: Seq<Rec>, cs: ISet<Seq<u8>>, c: Seq<u8>)
    ensures cnt(drop_commits(s, cs), c) == (if cs.contains(c) { 0nat } else { cnt(s, c) }),
    decreases s.len(),
{
    if s.len() > 0 {
        lemma_drop_commits_cnt(s.drop_last(), cs, c);
        let p = drop_commits(s.drop_last(), cs);
        if !cs.contains(s.last().commit) {
            assert(p.push(s.last()).drop_last() =~= p);
            assert(p.push(s.last()).last() == s.last());
        }
    }
}
/// filtering adds nothing
pub proof fn lemma_drop_commits_sub(s: Seq<Rec>, cs: ISet<Seq<u8>>)
    ensures drop_commits(s, cs).to_multiset().subset_of(s.to_multiset()),
    decreases s.len(),
{
    broadcast use vstd::seq_lib::group_to_multiset_ensures;
    if s.len() > 0 {
        let d = s.drop_last();
        lemma_drop_commits_sub(d, cs);
        let p = drop_commits(d, cs);
        assert(s =~= d.push(s.last()));
        assert(d.push(s.last()).to_multiset() =~= d.to_multiset().insert(s.last()));
        if !cs.contains(s.last().commit) {
            assert(p.push(s.last()).to_multiset() =~= p.to_multiset().insert(s.last()));
        }
    }
}
/// multiplicities in `l ++ (rows of r whose commit is not in l)`: rows of `l` as
/// they are (duplicates inside `l` stay), rows of `r` only for commits `l` lacks
/// (duplicates inside `r` stay for those)
pub open spec fn merged_cnt(l: Seq<Rec>, r: Seq<Rec>, c: Seq<u8>) -> nat {
    cnt(l, c) + (if has_commit(l, c) { 0nat } else { cnt(r, c) })
}
pub proof fn lemma_merged_cnt(m: Seq<Rec>, l: Seq<Rec>, r: Seq<Rec>, c: Seq<u8>)
    requires m.to_multiset() == (l + drop_commits(r, commit_set(l))).to_multiset(),
    ensures cnt(m, c) == merged_cnt(l, r, c),
{
    let fr = drop_commits(r, commit_set(l));
    lemma_cnt_multiset(m, l + fr, c);
    lemma_cnt_concat(l, fr, c);
    lemma_drop_commits_cnt(r, commit_set(l), c);
    assert(commit_set(l).contains(c) == has_commit(l, c));
}
/// with no duplicates inside either side the merged rows hold every commit of
/// either side exactly once (byte-identical events made independently count once)
pub proof fn lemma_merged_union(m: Seq<Rec>, l: Seq<Rec>, r: Seq<Rec>)
    requires no_dup(l), no_dup(r), m.to_multiset() == (l + drop_commits(r, commit_set(l))).to_multiset(),
    ensures is_commit_union(m, l, r),
{
    assert forall|c: Seq<u8>| #[trigger] cnt(m, c) == (if has_commit(l, c) || has_commit(r, c) { 1nat } else { 0nat }) by {
        lemma_merged_cnt(m, l, r, c);
        lemma_cnt_no_dup(l, c);
        lemma_cnt_no_dup(r, c);
    }
}

// ---- positions in a log -------------------------------------------------------
/// `k` is the LAST position of commit `c` in `s` — what a reverse scan of the log
/// (`rewind`, `diff_records`: `iter(true)` / `record_stream(true)`) stops at
pub open spec fn is_last_pos(s: Seq<Rec>, c: Seq<u8>, k: int) -> bool {
    &&& 0 <= k < s.len()
    &&& s[k].commit == c
    &&& forall|j: int| #![auto] k < j < s.len() ==> s[j].commit != c
}
pub proof fn lemma_last_pos_unique(s: Seq<Rec>, c: Seq<u8>, k1: int, k2: int)
    requires is_last_pos(s, c, k1), is_last_pos(s, c, k2),
    ensures k1 == k2,
{}

// ---- consequences for the folder contents (C05, second sentence) ------------------------
// Pure spec: the replay of a log as the fold of `step` over its rows (the reducer of
// unit `fold` is proved to compute this fold).  `ev_of` is the decoding of the event
// bytes of a row into what it does to a secret id; uninterpreted here.
pub ghost enum Ev { Create(Seq<u8>, Seq<u8>), Update(Seq<u8>, Seq<u8>), Delete(Seq<u8>), Other }
pub uninterp spec fn ev_of(r: Rec) -> Ev;
pub open spec fn touches(e: Ev, id: Seq<u8>) -> bool {
    match e { Ev::Create(j, _) => j == id, Ev::Update(j, _) => j == id, Ev::Delete(j) => j == id, Ev::Other => false }
}
pub open spec fn step(m: Map<Seq<u8>, Seq<u8>>, e: Ev) -> Map<Seq<u8>, Seq<u8>> {
    match e { Ev::Create(j, v) => m.insert(j, v), Ev::Update(j, v) => m.insert(j, v), Ev::Delete(j) => m.remove(j), Ev::Other => m }
}
pub open spec fn replay(s: Seq<Rec>) -> Map<Seq<u8>, Seq<u8>>
    decreases s.len(),
{
    if s.len() == 0 { Map::empty() } else { step(replay(s.drop_last()), ev_of(s.last())) }
}
/// what a row that touches `id` leaves behind for `id`
pub open spec fn leaves_behind(e: Ev, id: Seq<u8>) -> Option<Seq<u8>> {
    match e { Ev::Create(_, v) => Some(v), Ev::Update(_, v) => Some(v), _ => None }
}
pub open spec fn lookup(m: Map<Seq<u8>, Seq<u8>>, id: Seq<u8>) -> Option<Seq<u8>> {
    if m.contains_key(id) { Some(m[id]) } else { None }
}
/// the LAST row that touches an id decides what the folder holds for it
pub proof fn lemma_last_touch_decides(s: Seq<Rec>, id: Seq<u8>, k: int)
    requires
        0 <= k < s.len(), touches(ev_of(s[k]), id),
        forall|j: int| k < j < s.len() ==> !touches(ev_of(#[trigger] s[j]), id),
    ensures lookup(replay(s), id) == leaves_behind(ev_of(s[k]), id),
    decreases s.len(),
{
    let d = s.drop_last();
    if k < s.len() - 1 {
        assert(!touches(ev_of(s[s.len() - 1]), id));
        assert(d[k] == s[k]);
        assert forall|j: int| k < j < d.len() implies !touches(ev_of(#[trigger] d[j]), id) by { assert(d[j] == s[j]); }
        lemma_last_touch_decides(d, id, k);
    }
}
/// in a time-sorted log a row that is strictly later than every other row touching
/// the same id is the last one touching it
pub proof fn lemma_latest_is_last(s: Seq<Rec>, id: Seq<u8>, k: int)
    requires
        time_sorted(s), 0 <= k < s.len(), touches(ev_of(s[k]), id),
        forall|j: int| 0 <= j < s.len() && j != k && touches(ev_of(#[trigger] s[j]), id) ==> time_lt(s[j].time, s[k].time),
    ensures forall|j: int| k < j < s.len() ==> !touches(ev_of(#[trigger] s[j]), id),
{
    assert forall|j: int| k < j < s.len() implies !touches(ev_of(#[trigger] s[j]), id) by {
        if touches(ev_of(s[j]), id) {
            assert(time_le(s[k].time, s[j].time));
            assert(time_lt(s[j].time, s[k].time));
        }
    }
}
/// `k` is the last row of `m` touching `id`
pub open spec fn is_last_touch(m: Seq<Rec>, id: Seq<u8>, k: int) -> bool {
    &&& 0 <= k < m.len()
    &&& touches(ev_of(m[k]), id)
    &&& forall|j: int| k < j < m.len() ==> !touches(ev_of(#[trigger] m[j]), id)
}
/// appending `m` to any log: the last row of `m` touching `id` decides
pub proof fn lemma_append_decided(base: Seq<Rec>, m: Seq<Rec>, id: Seq<u8>, k: int)
    requires is_last_touch(m, id, k),
    ensures lookup(replay(base + m), id) == leaves_behind(ev_of(m[k]), id),
{
    let s = base + m;
    let kk = base.len() + k;
    assert(s[kk] == m[k]);
    assert forall|j: int| kk < j < s.len() implies !touches(ev_of(#[trigger] s[j]), id) by {
        assert(s[j] == m[j - base.len()]);
    }
    lemma_last_touch_decides(s, id, kk);
}
/// "the latest edit by timestamp wins" / "a secret created on one device appears on
/// all": whatever log the merged rows `m` are appended to, if `m` is time sorted and
/// the row `m[k]` creating/updating `id` is strictly later than every other row of
/// `m` touching `id`, the converged folder holds that value.
pub proof fn lemma_latest_edit_wins(base: Seq<Rec>, m: Seq<Rec>, id: Seq<u8>, k: int)
    requires
        time_sorted(m), 0 <= k < m.len(), touches(ev_of(m[k]), id),
        forall|j: int| 0 <= j < m.len() && j != k && touches(ev_of(#[trigger] m[j]), id) ==> time_lt(m[j].time, m[k].time),
    ensures lookup(replay(base + m), id) == leaves_behind(ev_of(m[k]), id),
{
    lemma_latest_is_last(m, id, k);
    lemma_append_decided(base, m, id, k);
}
pub proof fn lemma_last_touch_exists(m: Seq<Rec>, id: Seq<u8>, d: int)
    requires 0 <= d < m.len(), touches(ev_of(m[d]), id),
    ensures exists|k: int| d <= k && #[trigger] is_last_touch(m, id, k),
    decreases m.len() - d,
{
    if exists|j: int| d < j < m.len() && touches(ev_of(#[trigger] m[j]), id) {
        let j = choose|j: int| d < j < m.len() && touches(ev_of(#[trigger] m[j]), id);
        lemma_last_touch_exists(m, id, j);
    } else {
        assert(is_last_touch(m, id, d));
    }
}
/// "a deleted secret does not come back unless it was edited after the deletion":
/// if `m` is time sorted, holds a delete of `id`, and every create/update of `id` in
/// `m` is strictly earlier than that delete, the converged folder does not hold `id`.
pub proof fn lemma_deleted_stays_deleted(base: Seq<Rec>, m: Seq<Rec>, id: Seq<u8>, d: int)
    requires
        time_sorted(m), 0 <= d < m.len(), ev_of(m[d]) == Ev::Delete(id),
        forall|j: int| 0 <= j < m.len() && touches(ev_of(#[trigger] m[j]), id) && !(ev_of(m[j]) is Delete) ==> time_lt(m[j].time, m[d].time),
    ensures !replay(base + m).contains_key(id),
{
    lemma_last_touch_exists(m, id, d);
    let k = choose|k: int| d <= k && #[trigger] is_last_touch(m, id, k);
    if !(ev_of(m[k]) is Delete) {
        assert(time_lt(m[k].time, m[d].time));
        assert(d < k);
        assert(time_le(m[d].time, m[k].time));
    }
    lemma_append_decided(base, m, id, k);
}
