// ===========================================================================
// prelude/merge_spec.rs — specification vocabulary of unit `merge` (C05, C07
// refusal part, C08 scan part).  Pure spec text and PROVED lemmas only: no
// assumption lives in this file.  Included at top level (it talks about the
// extracted `EventRecord`, `CommitProof`).
// ===========================================================================

// ---- records ----------------------------------------------------------------
/// What a row of an event log IS for the three properties: time stamp, commit
/// hash (SHA-256 of the event bytes; `EventRecord::encode_event`) and event
/// bytes.  The stored `last_commit` field is not part of the abstract row: it is
/// a function of the row's position (`apply_records` overwrites it with the
/// previous commit on every append, crates/filesystem/src/event_log.rs
/// `record.set_last_commit(last_commit_hash)`).
pub ghost struct Rec { pub time: Instant, pub commit: Seq<u8>, pub event: Seq<u8> }

impl View for EventRecord {
    type V = Rec;
    open spec fn view(&self) -> Rec { Rec { time: self.0.0@, commit: self.2.0@, event: self.3@ } }
}
/// abstract rows of a vector of records
pub open spec fn rv(v: Seq<EventRecord>) -> Seq<Rec> { Seq::new(v.len(), |i: int| v[i]@) }
/// the commit column
pub open spec fn commits(s: Seq<Rec>) -> Seq<Seq<u8>> { Seq::new(s.len(), |i: int| s[i].commit) }

/// `Ord for OffsetDateTime` (time-0.3 `offset_date_time.rs`: compares the UTC
/// instants): lexicographic on (unix seconds, nanosecond)
pub open spec fn time_le(a: Instant, b: Instant) -> bool {
    a.secs < b.secs || (a.secs == b.secs && a.nanos <= b.nanos)
}
pub open spec fn time_lt(a: Instant, b: Instant) -> bool {
    a.secs < b.secs || (a.secs == b.secs && a.nanos < b.nanos)
}
pub open spec fn time_sorted(s: Seq<Rec>) -> bool {
    forall|i: int, j: int| 0 <= i < j < s.len() ==> time_le(s[i].time, s[j].time)
}
/// `p` is a permutation of `0..n`
pub open spec fn is_perm(p: Seq<int>, n: nat) -> bool {
    &&& p.len() == n
    &&& forall|i: int| 0 <= i < n ==> 0 <= #[trigger] p[i] < n
    &&& forall|i: int, j: int| 0 <= i < j < n ==> p[i] != p[j]
}
/// `out` is THE stable sort of `inp` by time: `out[i] == inp[p[i]]` for a
/// permutation `p` under which rows are ordered by (time, original position)
pub open spec fn stable_sort_witness(out: Seq<Rec>, inp: Seq<Rec>, p: Seq<int>) -> bool {
    &&& is_perm(p, inp.len())
    &&& out.len() == inp.len()
    &&& forall|i: int| 0 <= i < out.len() ==> #[trigger] out[i] == inp[p[i]]
    &&& forall|i: int, j: int| 0 <= i < j < out.len() ==>
            time_lt(out[i].time, out[j].time) || (out[i].time == out[j].time && #[trigger] p[i] < #[trigger] p[j])
}
pub open spec fn is_stable_time_sort_of(out: Seq<Rec>, inp: Seq<Rec>) -> bool {
    exists|p: Seq<int>| stable_sort_witness(out, inp, p)
}

// ---- commit sets / multiplicities ---------------------------------------------
pub open spec fn has_commit(s: Seq<Rec>, c: Seq<u8>) -> bool {
    exists|i: int| 0 <= i < s.len() && #[trigger] s[i].commit == c
}
pub open spec fn commit_set(s: Seq<Rec>) -> ISet<Seq<u8>> { ISet::new(|c: Seq<u8>| has_commit(s, c)) }
/// how many rows of `s` carry commit `c`
pub open spec fn cnt(s: Seq<Rec>, c: Seq<u8>) -> nat
    decreases s.len(),
{
    if s.len() == 0 { 0 } else { cnt(s.drop_last(), c) + (if s.last().commit == c { 1nat } else { 0nat }) }
}
pub open spec fn no_dup(s: Seq<Rec>) -> bool {
    forall|i: int, j: int| #![auto] 0 <= i < j < s.len() ==> s[i].commit != s[j].commit
}
/// C05 "every event committed on any device since that ancestor is present
/// exactly once in the converged log (byte-identical events made independently
/// count as one) ... and nothing else is added", on the commit column
pub open spec fn is_commit_union(m: Seq<Rec>, l: Seq<Rec>, r: Seq<Rec>) -> bool {
    forall|c: Seq<u8>| #[trigger] cnt(m, c) == (if has_commit(l, c) || has_commit(r, c) { 1nat } else { 0nat })
}

pub proof fn lemma_cnt_zero(s: Seq<Rec>, c: Seq<u8>)
    ensures (cnt(s, c) == 0) <==> !has_commit(s, c),
    decreases s.len(),
{
    if s.len() > 0 {
        lemma_cnt_zero(s.drop_last(), c);
        let d = s.drop_last();
        if has_commit(d, c) {
            let i = choose|i: int| 0 <= i < d.len() && #[trigger] d[i].commit == c;
            assert(s[i].commit == c);
        }
        if has_commit(s, c) && s.last().commit != c {
            let i = choose|i: int| 0 <= i < s.len() && #[trigger] s[i].commit == c;
            assert(d[i].commit == c);
        }
        if s.last().commit == c { assert(s[s.len() - 1].commit == c); }
    }
}
pub proof fn lemma_cnt_no_dup(s: Seq<Rec>, c: Seq<u8>)
    requires no_dup(s),
    ensures cnt(s, c) == (if has_commit(s, c) { 1nat } else { 0nat }),
    decreases s.len(),
{
    lemma_cnt_zero(s, c);
    if s.len() > 0 {
        let d = s.drop_last();
        assert(no_dup(d)) by {
            assert forall|i: int, j: int| #![auto] 0 <= i < j < d.len() implies d[i].commit != d[j].commit by {
                assert(s[i].commit != s[j].commit);
            }
        }
        lemma_cnt_no_dup(d, c);
        lemma_cnt_zero(d, c);
        if s.last().commit == c && has_commit(d, c) {
            let i = choose|i: int| 0 <= i < d.len() && #[trigger] d[i].commit == c;
            assert(s[i].commit != s[s.len() - 1].commit);
        }
    }
}
/// `cnt` distributes over concatenation
pub proof fn lemma_cnt_concat(a: Seq<Rec>, b: Seq<Rec>, c: Seq<u8>)
    ensures cnt(a + b, c) == cnt(a, c) + cnt(b, c),
    decreases b.len(),
{
    if b.len() == 0 {
        assert(a + b =~= a);
    } else {
        assert((a + b).drop_last() =~= a + b.drop_last());
        assert((a + b).last() == b.last());
        lemma_cnt_concat(a, b.drop_last(), c);
    }
}
/// a permutation image keeps every multiplicity (used for the sorted result)
pub proof fn lemma_cnt_multiset(a: Seq<Rec>, b: Seq<Rec>, c: Seq<u8>)
    requires a.to_multiset() == b.to_multiset(),
    ensures cnt(a, c) == cnt(b, c),
    decreases a.len(),
{
    broadcast use vstd::seq_lib::group_to_multiset_ensures;
    a.to_multiset_ensures();
    b.to_multiset_ensures();
    if a.len() == 0 {
        if b.len() > 0 { assert(b.to_multiset().count(b[0]) > 0); assert(a.to_multiset().count(b[0]) == 0); }
    } else {
        let x = a.last();
        assert(a.to_multiset().count(x) > 0) by { assert(a.contains(x)); }
        assert(b.contains(x));
        let k = choose|k: int| 0 <= k < b.len() && b[k] == x;
        let b2 = b.remove(k);
        let a2 = a.drop_last();
        assert(a =~= a2.push(x));
        assert(a2.to_multiset() =~= a.to_multiset().remove(x)) by {
            assert(a2.push(x).to_multiset() =~= a2.to_multiset().insert(x));
        }
        vstd::seq_lib::to_multiset_remove(b, k);
        assert(b2.to_multiset() =~= b.to_multiset().remove(x));
        lemma_cnt_multiset(a2, b2, c);
        // cnt(b) == cnt(b2) + [x.commit == c]
        assert(b =~= b.take(k) + seq![x] + b.skip(k + 1));
        assert(b2 =~= b.take(k) + b.skip(k + 1));
        lemma_cnt_concat(b.take(k), seq![x], c);
        lemma_cnt_concat(b.take(k) + seq![x], b.skip(k + 1), c);
        lemma_cnt_concat(b.take(k), b.skip(k + 1), c);
        assert(cnt(seq![x], c) == (if x.commit == c { 1nat } else { 0nat })) by {
            assert(seq![x].drop_last() =~= Seq::<Rec>::empty());
            reveal_with_fuel(cnt, 2);
        }
    }
}

/// D18 as a theorem: when a commit is present on both sides (each side without
/// duplicates), ANY permutation of `l ++ r` — in particular the stable time sort
/// `merge_patches` returns in the non-subset case — holds it twice, so
/// [merge_is_union] cannot hold there.
pub proof fn lemma_D18_duplicate(m: Seq<Rec>, l: Seq<Rec>, r: Seq<Rec>, c: Seq<u8>)
    requires no_dup(l), no_dup(r), has_commit(l, c), has_commit(r, c), m.to_multiset() == (l + r).to_multiset(),
    ensures cnt(m, c) == 2, !is_commit_union(m, l, r),
{
    lemma_cnt_multiset(m, l + r, c);
    lemma_cnt_concat(l, r, c);
    lemma_cnt_no_dup(l, c);
    lemma_cnt_no_dup(r, c);
}

/// the row vector of a concatenation
pub proof fn lemma_rv_concat(a: Seq<EventRecord>, b: Seq<EventRecord>)
    ensures rv(a + b) == rv(a) + rv(b),
{
    assert(rv(a + b) =~= rv(a) + rv(b));
}

// ---- positions in a log -------------------------------------------------------
/// `k` is the LAST position of commit `c` in `s` — what a reverse scan of the log
/// (`rewind`, `diff_records`: `iter(true)` / `record_stream(true)`) stops at
pub open spec fn is_last_pos(s: Seq<Rec>, c: Seq<u8>, k: int) -> bool {
    &&& 0 <= k < s.len()
    &&& s[k].commit == c
    &&& forall|j: int| #![auto] k < j < s.len() ==> s[j].commit != c
}
pub proof fn lemma_last_pos_unique(s: Seq<Rec>, c: Seq<u8>, k1: int, k2: int)
    requires is_last_pos(s, c, k1), is_last_pos(s, c, k2),
    ensures k1 == k2,
{}
