// ===========================================================================
// prelude/wire_types.rs — STAND-IN FOR GENERATED CODE: the prost-build output
// of crates/protocol/src/protobuf/*.proto.  Plain Rust structs with exactly
// the fields of the generated structs (read from
// /repo/target/debug/build/sos-protocol-9a87f9c5a7bbc575/out/{common,diff,
// patch,scan,files,notifications,sync}.rs; prost-build 0.13).  Message fields
// are Option<WireX>, repeated fields Vec, bytes Vec<u8>, enumerations i32,
// oneofs an Option of an enum in a module named after the message.
// prost's byte-level encode/decode (derive(::prost::Message)) is NOT modelled.
// Each struct gets a ghost view (Vec -> Seq, Option<Wire> -> Option<view>).
// ===========================================================================

// ---- view helpers -------------------------------------------------------------------
pub open spec fn oview<T: View>(o: Option<T>) -> Option<T::V> {
    match o { Some(x) => Some(x@), None => None }
}
pub open spec fn sview<T: View>(s: Seq<T>) -> Seq<T::V> {
    Seq::new(s.len(), |i: int| s[i]@)
}

// ---- common.proto (out/common.rs) ------------------------------------------------------
/// message WireEventLogTypeUser
pub struct WireEventLogTypeUser { pub folder_id: Vec<u8> }
/// message WireEventLogType { oneof inner { WireEventLogTypeSystem system = 1; WireEventLogTypeUser user = 2; } }
pub struct WireEventLogType { pub inner: Option<wire_event_log_type::Inner> }
pub mod wire_event_log_type {
    #[allow(unused_imports)] use vstd::prelude::*;
    pub enum Inner { System(i32), User(super::WireEventLogTypeUser) }
}
pub ghost enum WireEventLogTypeV { Missing, System(i32), User(Seq<u8>) }
impl View for WireEventLogType {
    type V = WireEventLogTypeV;
    open spec fn view(&self) -> WireEventLogTypeV {
        match self.inner {
            None => WireEventLogTypeV::Missing,
            Some(wire_event_log_type::Inner::System(i)) => WireEventLogTypeV::System(i),
            Some(wire_event_log_type::Inner::User(u)) => WireEventLogTypeV::User(u.folder_id@),
        }
    }
}
/// message WireSecretPath
pub struct WireSecretPath { pub folder_id: Vec<u8>, pub secret_id: Vec<u8> }
pub ghost struct WireSecretPathV { pub folder_id: Seq<u8>, pub secret_id: Seq<u8> }
impl View for WireSecretPath {
    type V = WireSecretPathV;
    open spec fn view(&self) -> WireSecretPathV { WireSecretPathV { folder_id: self.folder_id@, secret_id: self.secret_id@ } }
}
/// message WireCommitHash
pub struct WireCommitHash { pub hash: Vec<u8> }
impl View for WireCommitHash {
    type V = Seq<u8>;
    open spec fn view(&self) -> Seq<u8> { self.hash@ }
}
/// message WireCommitProof
pub struct WireCommitProof { pub root: Option<WireCommitHash>, pub proof: Vec<u8>, pub length: u64, pub indices: Vec<u64> }
pub ghost struct WireCommitProofV { pub root: Option<Seq<u8>>, pub proof: Seq<u8>, pub length: u64, pub indices: Seq<u64> }
impl View for WireCommitProof {
    type V = WireCommitProofV;
    open spec fn view(&self) -> WireCommitProofV {
        WireCommitProofV { root: oview(self.root), proof: self.proof@, length: self.length, indices: self.indices@ }
    }
}
/// message WireCommitState
pub struct WireCommitState { pub hash: Option<WireCommitHash>, pub proof: Option<WireCommitProof> }
pub ghost struct WireCommitStateV { pub hash: Option<Seq<u8>>, pub proof: Option<WireCommitProofV> }
impl View for WireCommitState {
    type V = WireCommitStateV;
    open spec fn view(&self) -> WireCommitStateV { WireCommitStateV { hash: oview(self.hash), proof: oview(self.proof) } }
}
/// message WireUtcDateTime
#[derive(Clone, Copy)]
pub struct WireUtcDateTime { pub seconds: i64, pub nanos: u32 }
pub ghost struct WireUtcDateTimeV { pub seconds: i64, pub nanos: u32 }
impl View for WireUtcDateTime {
    type V = WireUtcDateTimeV;
    open spec fn view(&self) -> WireUtcDateTimeV { WireUtcDateTimeV { seconds: self.seconds, nanos: self.nanos } }
}
/// message WireEventRecord
pub struct WireEventRecord { pub time: Option<WireUtcDateTime>, pub last_commit: Option<WireCommitHash>, pub commit: Option<WireCommitHash>, pub event: Vec<u8> }
pub ghost struct WireEventRecordV { pub time: Option<WireUtcDateTimeV>, pub last_commit: Option<Seq<u8>>, pub commit: Option<Seq<u8>>, pub event: Seq<u8> }
impl View for WireEventRecord {
    type V = WireEventRecordV;
    open spec fn view(&self) -> WireEventRecordV {
        WireEventRecordV { time: oview(self.time), last_commit: oview(self.last_commit), commit: oview(self.commit), event: self.event@ }
    }
}
/// message WireCheckedPatchSuccess / WireCheckedPatchConflict / WireCheckedPatch { oneof inner }
pub struct WireCheckedPatchSuccess { pub proof: Option<WireCommitProof> }
pub struct WireCheckedPatchConflict { pub head: Option<WireCommitProof>, pub contains: Option<WireCommitProof> }
pub struct WireCheckedPatch { pub inner: Option<wire_checked_patch::Inner> }
pub mod wire_checked_patch {
    #[allow(unused_imports)] use vstd::prelude::*;
    pub enum Inner { Success(super::WireCheckedPatchSuccess), Conflict(super::WireCheckedPatchConflict) }
}
pub ghost enum WireCheckedPatchV {
    Missing,
    Success { proof: Option<WireCommitProofV> },
    Conflict { head: Option<WireCommitProofV>, contains: Option<WireCommitProofV> },
}
impl View for WireCheckedPatch {
    type V = WireCheckedPatchV;
    open spec fn view(&self) -> WireCheckedPatchV {
        match self.inner {
            None => WireCheckedPatchV::Missing,
            Some(wire_checked_patch::Inner::Success(s)) => WireCheckedPatchV::Success { proof: oview(s.proof) },
            Some(wire_checked_patch::Inner::Conflict(c)) => WireCheckedPatchV::Conflict { head: oview(c.head), contains: oview(c.contains) },
        }
    }
}

// ---- scan.proto (out/scan.rs) ------------------------------------------------------------
/// message WireScanRequest
pub struct WireScanRequest { pub log_type: Option<WireEventLogType>, pub limit: Option<u32>, pub offset: u64 }
pub ghost struct WireScanRequestV { pub log_type: Option<WireEventLogTypeV>, pub limit: Option<u32>, pub offset: u64 }
impl View for WireScanRequest {
    type V = WireScanRequestV;
    open spec fn view(&self) -> WireScanRequestV { WireScanRequestV { log_type: oview(self.log_type), limit: self.limit, offset: self.offset } }
}
/// message WireScanResponse
pub struct WireScanResponse { pub first_proof: Option<WireCommitProof>, pub proofs: Vec<WireCommitProof>, pub offset: u64 }
pub ghost struct WireScanResponseV { pub first_proof: Option<WireCommitProofV>, pub proofs: Seq<WireCommitProofV>, pub offset: u64 }
impl View for WireScanResponse {
    type V = WireScanResponseV;
    open spec fn view(&self) -> WireScanResponseV { WireScanResponseV { first_proof: oview(self.first_proof), proofs: sview(self.proofs@), offset: self.offset } }
}
// ---- diff.proto (out/diff.rs) ------------------------------------------------------------
/// message WireDiffRequest
pub struct WireDiffRequest { pub log_type: Option<WireEventLogType>, pub from_hash: Option<WireCommitHash> }
pub ghost struct WireDiffRequestV { pub log_type: Option<WireEventLogTypeV>, pub from_hash: Option<Seq<u8>> }
impl View for WireDiffRequest {
    type V = WireDiffRequestV;
    open spec fn view(&self) -> WireDiffRequestV { WireDiffRequestV { log_type: oview(self.log_type), from_hash: oview(self.from_hash) } }
}
/// message WireDiffResponse
pub struct WireDiffResponse { pub patch: Vec<WireEventRecord>, pub checkpoint: Option<WireCommitProof> }
pub ghost struct WireDiffResponseV { pub patch: Seq<WireEventRecordV>, pub checkpoint: Option<WireCommitProofV> }
impl View for WireDiffResponse {
    type V = WireDiffResponseV;
    open spec fn view(&self) -> WireDiffResponseV { WireDiffResponseV { patch: sview(self.patch@), checkpoint: oview(self.checkpoint) } }
}
// ---- patch.proto (out/patch.rs) ------------------------------------------------------------
/// message WirePatchRequest
pub struct WirePatchRequest { pub log_type: Option<WireEventLogType>, pub commit: Option<WireCommitHash>, pub proof: Option<WireCommitProof>, pub patch: Vec<WireEventRecord> }
pub ghost struct WirePatchRequestV { pub log_type: Option<WireEventLogTypeV>, pub commit: Option<Seq<u8>>, pub proof: Option<WireCommitProofV>, pub patch: Seq<WireEventRecordV> }
impl View for WirePatchRequest {
    type V = WirePatchRequestV;
    open spec fn view(&self) -> WirePatchRequestV {
        WirePatchRequestV { log_type: oview(self.log_type), commit: oview(self.commit), proof: oview(self.proof), patch: sview(self.patch@) }
    }
}
/// message WirePatchResponse
pub struct WirePatchResponse { pub checked_patch: Option<WireCheckedPatch> }
pub ghost struct WirePatchResponseV { pub checked_patch: Option<WireCheckedPatchV> }
impl View for WirePatchResponse {
    type V = WirePatchResponseV;
    open spec fn view(&self) -> WirePatchResponseV { WirePatchResponseV { checked_patch: oview(self.checked_patch) } }
}

/// enum WireEventLogTypeSystem (out/common.rs): the generated enum and its two
/// name functions, bodies verbatim from the generated file; the `ensures` are
/// checked against those bodies (not assumed).
/// (generated: `#[repr(i32)] enum { Identity = 0, Account = 1, Device = 2, Files = 3 }`;
/// the verus! macro rejects explicit discriminants, they are carried by `system_tag`)
#[derive(Clone, Copy)]
pub enum WireEventLogTypeSystem { Identity, Account, Device, Files }
pub open spec fn system_name(s: WireEventLogTypeSystem) -> &'static str {
    match s {
        WireEventLogTypeSystem::Identity => "Identity",
        WireEventLogTypeSystem::Account => "Account",
        WireEventLogTypeSystem::Device => "Device",
        WireEventLogTypeSystem::Files => "Files",
    }
}
pub open spec fn system_tag(s: WireEventLogTypeSystem) -> i32 {
    match s {
        WireEventLogTypeSystem::Identity => 0i32,
        WireEventLogTypeSystem::Account => 1i32,
        WireEventLogTypeSystem::Device => 2i32,
        WireEventLogTypeSystem::Files => 3i32,
    }
}
pub open spec fn system_of_name(value: &str) -> Option<WireEventLogTypeSystem> {
    if value == "Identity" { Some(WireEventLogTypeSystem::Identity) }
    else if value == "Account" { Some(WireEventLogTypeSystem::Account) }
    else if value == "Device" { Some(WireEventLogTypeSystem::Device) }
    else if value == "Files" { Some(WireEventLogTypeSystem::Files) }
    else { None }
}
impl WireEventLogTypeSystem {
    pub fn as_str_name(&self) -> (r: &'static str)
        ensures r == system_name(*self),
    {
        match self {
            Self::Identity => "Identity",
            Self::Account => "Account",
            Self::Device => "Device",
            Self::Files => "Files",
        }
    }
    pub fn from_str_name(value: &str) -> (r: Option<Self>)
        ensures r == system_of_name(value),
    {
        match value {
            "Identity" => Some(Self::Identity),
            "Account" => Some(Self::Account),
            "Device" => Some(Self::Device),
            "Files" => Some(Self::Files),
            _ => None,
        }
    }
}
/// prost::UnknownEnumValue (prost-0.13 src/error.rs)
#[derive(Debug)]
pub struct UnknownEnumValue(pub i32);
/// derive(::prost::Enumeration) generates `impl TryFrom<i32> for E`: Ok exactly
/// for the declared discriminants (prost-derive-0.13 src/lib.rs, try_from arm
/// per variant, `_ => Err(UnknownEnumValue(value))`).
impl core::convert::TryFrom<i32> for WireEventLogTypeSystem {
    type Error = UnknownEnumValue;
    #[verifier::external_body]
    fn try_from(value: i32) -> (r: core::result::Result<WireEventLogTypeSystem, UnknownEnumValue>)
        ensures
            r.is_ok() <==> 0 <= value <= 3,
            r.is_ok() ==> system_tag(r.unwrap()) == value,
    { unimplemented!() }
}
impl vstd::std_specs::convert::TryFromSpecImpl<i32> for WireEventLogTypeSystem {
    open spec fn obeys_try_from_spec() -> bool { false }
    open spec fn try_from_spec(v: i32) -> core::result::Result<Self, Self::Error> { arbitrary() }
}
/// `E as i32` of the generated #[repr(i32)] enum (Verus has no enum casts)
#[verifier::external_body]
pub fn system_as_i32(s: WireEventLogTypeSystem) -> (r: i32)
    ensures r == system_tag(s),
{ unimplemented!() }

// ---- sos_protocol::Error (crates/protocol/src/error.rs) --------------------------------
// thiserror enum; only its #[from] conversions are used by the bindings, the
// payloads are never inspected: carried as an opaque value.
#[derive(Debug)]
pub struct WireError { pub _p: () }
impl vstd::std_specs::convert::FromSpecImpl<TryFromSliceError> for WireError {
    open spec fn obeys_from_spec() -> bool { true }
    open spec fn from_spec(e: TryFromSliceError) -> WireError { WireError { _p: () } }
}
impl core::convert::From<TryFromSliceError> for WireError { fn from(e: TryFromSliceError) -> (r: WireError) { WireError { _p: () } } }
impl vstd::std_specs::convert::FromSpecImpl<ComponentRange> for WireError {
    open spec fn obeys_from_spec() -> bool { true }
    open spec fn from_spec(e: ComponentRange) -> WireError { WireError { _p: () } }
}
impl core::convert::From<ComponentRange> for WireError { fn from(e: ComponentRange) -> (r: WireError) { WireError { _p: () } } }
impl vstd::std_specs::convert::FromSpecImpl<MerkleError> for WireError {
    open spec fn obeys_from_spec() -> bool { true }
    open spec fn from_spec(e: MerkleError) -> WireError { WireError { _p: () } }
}
impl core::convert::From<MerkleError> for WireError { fn from(e: MerkleError) -> (r: WireError) { WireError { _p: () } } }
impl vstd::std_specs::convert::FromSpecImpl<UnknownEnumValue> for WireError {
    open spec fn obeys_from_spec() -> bool { true }
    open spec fn from_spec(e: UnknownEnumValue) -> WireError { WireError { _p: () } }
}
impl core::convert::From<UnknownEnumValue> for WireError { fn from(e: UnknownEnumValue) -> (r: WireError) { WireError { _p: () } } }
impl vstd::std_specs::convert::FromSpecImpl<Error> for WireError {
    open spec fn obeys_from_spec() -> bool { false }
    open spec fn from_spec(e: Error) -> WireError { arbitrary() }
}
impl core::convert::From<Error> for WireError { #[verifier::external_body] fn from(e: Error) -> (r: WireError) { WireError { _p: () } } }

// ---- R12 helpers: iterator chains with their std meaning -------------------------------------
/// element-wise `as` casts of a sequence (same length, each element cast)
pub open spec fn seq_usize_of(s: Seq<u64>) -> Seq<usize> { Seq::new(s.len(), |i: int| s[i] as usize) }
pub open spec fn seq_u64_of(s: Seq<usize>) -> Seq<u64> { Seq::new(s.len(), |i: int| s[i] as u64) }
/// `v.into_iter().map(|i| i as usize).collect()`
#[verifier::external_body]
pub fn vmap_u64_usize(v: Vec<u64>) -> (r: Vec<usize>)
    ensures r@ == seq_usize_of(v@),
{ v.into_iter().map(|i| i as usize).collect() }
/// `v.into_iter().map(|i| i as u64).collect()`
#[verifier::external_body]
pub fn vmap_usize_u64(v: Vec<usize>) -> (r: Vec<u64>)
    ensures r@ == seq_u64_of(v@),
{ v.into_iter().map(|i| i as u64).collect() }
/// `o.map(|x| x.into())` on an Option (verified, not assumed)
pub fn omap_into<A, B: core::convert::From<A>>(o: Option<A>) -> (r: Option<B>)
    ensures r.is_some() == o.is_some(), o.is_some() ==> call_ensures(B::from, (o.unwrap(),), r.unwrap()),
{ match o { Some(x) => Some(B::from(x)), None => None } }
/// `v.into_iter().map(|x| x.into()).collect()` on a Vec (verified, not assumed)
pub fn vmap_into<A, B: core::convert::From<A>>(v: Vec<A>) -> (r: Vec<B>)
    ensures r@.len() == v@.len(), forall|i: int| 0 <= i < v@.len() ==> call_ensures(B::from, (v@[i],), #[trigger] r@[i]),
{
    let mut out: Vec<B> = Vec::new();
    for x in it: v
        invariant it.seq() == v@, out@.len() == it.index@,
            forall|i: int| 0 <= i < it.index@ ==> call_ensures(B::from, (v@[i],), #[trigger] out@[i]),
    { out.push(B::from(x)); }
    out
}
/// R12d: `Vec::with_capacity(v.len())` where v is a vector that already exists
/// (decoded by prost from the same message): the allocation is proportional to
/// memory already held, the C15 bound [alloc_proportional] holds by construction.
pub fn vec_with_capacity_like<T, U>(src: &Vec<U>) -> (v: Vec<T>)
    ensures v@.len() == 0,
{ Vec::with_capacity(src.len()) }
/// `<[u8; N]>::to_vec` / `<[u8]>::to_vec` on a byte array reference
#[verifier::external_body]
pub fn arr_to_vec<const N: usize>(a: &[u8; N]) -> (r: Vec<u8>)
    ensures r@ == a@,
{ a.to_vec() }
