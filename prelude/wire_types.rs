// ===========================================================================
// prelude/wire_types.rs — STAND-IN FOR GENERATED CODE: the prost-build output
// of crates/protocol/src/protobuf/*.proto.  Plain Rust structs with exactly
// the fields of the generated structs (read from
// /repo/target/debug/build/sos-protocol-9a87f9c5a7bbc575/out/{common,diff,
// patch,scan,files,notifications,sync}.rs; prost-build 0.13).  Message fields
// are Option<WireX>, repeated fields Vec, bytes Vec<u8>, enumerations i32,
// oneofs an Option of an enum in a module named after the message.
// prost's byte-level encode/decode (derive(::prost::Message)) is NOT modelled.
// Each struct gets a ghost view (Vec -> Seq, Option<Wire> -> Option<view>).
// derive(::prost::Message) implements Default for every message (all fields at their protobuf
// default: None / empty / 0): the stand-ins derive Default (no specification of the default value is
// assumed; it is there so that `o.unwrap_or_default()` and `..Default::default()` type-check).
// ===========================================================================

// ---- view helpers -------------------------------------------------------------------
pub open spec fn oview<T: View>(o: Option<T>) -> Option<T::V> {
    match o { Some(x) => Some(x@), None => None }
}
pub open spec fn sview<T: View>(s: Seq<T>) -> Seq<T::V> {
    Seq::new(s.len(), |i: int| s[i]@)
}

// ---- common.proto (out/common.rs) ------------------------------------------------------
/// message WireEventLogTypeUser
#[derive(Default)]
pub struct WireEventLogTypeUser { pub folder_id: Vec<u8> }
/// message WireEventLogType { oneof inner { WireEventLogTypeSystem system = 1; WireEventLogTypeUser user = 2; } }
#[derive(Default)]
pub struct WireEventLogType { pub inner: Option<wire_event_log_type::Inner> }
pub mod wire_event_log_type {
    #[allow(unused_imports)] use vstd::prelude::*;
    pub enum Inner { System(i32), User(super::WireEventLogTypeUser) }
}
pub ghost enum WireEventLogTypeV { Missing, System(i32), User(Seq<u8>) }
impl View for WireEventLogType {
    type V = WireEventLogTypeV;
    open spec fn view(&self) -> WireEventLogTypeV {
        match self.inner {
            None => WireEventLogTypeV::Missing,
            Some(wire_event_log_type::Inner::System(i)) => WireEventLogTypeV::System(i),
            Some(wire_event_log_type::Inner::User(u)) => WireEventLogTypeV::User(u.folder_id@),
        }
    }
}
/// message WireSecretPath
#[derive(Default)]
pub struct WireSecretPath { pub folder_id: Vec<u8>, pub secret_id: Vec<u8> }
pub ghost struct WireSecretPathV { pub folder_id: Seq<u8>, pub secret_id: Seq<u8> }
impl View for WireSecretPath {
    type V = WireSecretPathV;
    open spec fn view(&self) -> WireSecretPathV { WireSecretPathV { folder_id: self.folder_id@, secret_id: self.secret_id@ } }
}
/// message WireCommitHash
#[derive(Default)]
pub struct WireCommitHash { pub hash: Vec<u8> }
impl View for WireCommitHash {
    type V = Seq<u8>;
    open spec fn view(&self) -> Seq<u8> { self.hash@ }
}
/// message WireCommitProof
#[derive(Default)]
pub struct WireCommitProof { pub root: Option<WireCommitHash>, pub proof: Vec<u8>, pub length: u64, pub indices: Vec<u64> }
pub ghost struct WireCommitProofV { pub root: Option<Seq<u8>>, pub proof: Seq<u8>, pub length: u64, pub indices: Seq<u64> }
impl View for WireCommitProof {
    type V = WireCommitProofV;
    open spec fn view(&self) -> WireCommitProofV {
        WireCommitProofV { root: oview(self.root), proof: self.proof@, length: self.length, indices: self.indices@ }
    }
}
/// message WireCommitState
#[derive(Default)]
pub struct WireCommitState { pub hash: Option<WireCommitHash>, pub proof: Option<WireCommitProof> }
pub ghost struct WireCommitStateV { pub hash: Option<Seq<u8>>, pub proof: Option<WireCommitProofV> }
impl View for WireCommitState {
    type V = WireCommitStateV;
    open spec fn view(&self) -> WireCommitStateV { WireCommitStateV { hash: oview(self.hash), proof: oview(self.proof) } }
}
/// message WireUtcDateTime
#[derive(Default, Clone, Copy)]
pub struct WireUtcDateTime { pub seconds: i64, pub nanos: u32 }
pub ghost struct WireUtcDateTimeV { pub seconds: i64, pub nanos: u32 }
impl View for WireUtcDateTime {
    type V = WireUtcDateTimeV;
    open spec fn view(&self) -> WireUtcDateTimeV { WireUtcDateTimeV { seconds: self.seconds, nanos: self.nanos } }
}
/// message WireEventRecord
#[derive(Default)]
pub struct WireEventRecord { pub time: Option<WireUtcDateTime>, pub last_commit: Option<WireCommitHash>, pub commit: Option<WireCommitHash>, pub event: Vec<u8> }
pub ghost struct WireEventRecordV { pub time: Option<WireUtcDateTimeV>, pub last_commit: Option<Seq<u8>>, pub commit: Option<Seq<u8>>, pub event: Seq<u8> }
impl View for WireEventRecord {
    type V = WireEventRecordV;
    open spec fn view(&self) -> WireEventRecordV {
        WireEventRecordV { time: oview(self.time), last_commit: oview(self.last_commit), commit: oview(self.commit), event: self.event@ }
    }
}
/// message WireCheckedPatchSuccess / WireCheckedPatchConflict / WireCheckedPatch { oneof inner }
#[derive(Default)]
pub struct WireCheckedPatchSuccess { pub proof: Option<WireCommitProof> }
#[derive(Default)]
pub struct WireCheckedPatchConflict { pub head: Option<WireCommitProof>, pub contains: Option<WireCommitProof> }
#[derive(Default)]
pub struct WireCheckedPatch { pub inner: Option<wire_checked_patch::Inner> }
pub mod wire_checked_patch {
    #[allow(unused_imports)] use vstd::prelude::*;
    pub enum Inner { Success(super::WireCheckedPatchSuccess), Conflict(super::WireCheckedPatchConflict) }
}
pub ghost enum WireCheckedPatchV {
    Missing,
    Success { proof: Option<WireCommitProofV> },
    Conflict { head: Option<WireCommitProofV>, contains: Option<WireCommitProofV> },
}
impl View for WireCheckedPatch {
    type V = WireCheckedPatchV;
    open spec fn view(&self) -> WireCheckedPatchV {
        match self.inner {
            None => WireCheckedPatchV::Missing,
            Some(wire_checked_patch::Inner::Success(s)) => WireCheckedPatchV::Success { proof: oview(s.proof) },
            Some(wire_checked_patch::Inner::Conflict(c)) => WireCheckedPatchV::Conflict { head: oview(c.head), contains: oview(c.contains) },
        }
    }
}

// ---- scan.proto (out/scan.rs) ------------------------------------------------------------
/// message WireScanRequest
#[derive(Default)]
pub struct WireScanRequest { pub log_type: Option<WireEventLogType>, pub limit: Option<u32>, pub offset: u64 }
pub ghost struct WireScanRequestV { pub log_type: Option<WireEventLogTypeV>, pub limit: Option<u32>, pub offset: u64 }
impl View for WireScanRequest {
    type V = WireScanRequestV;
    open spec fn view(&self) -> WireScanRequestV { WireScanRequestV { log_type: oview(self.log_type), limit: self.limit, offset: self.offset } }
}
impl WireScanRequest {
    /// getter generated by derive(::prost::Message) for the `optional uint32 limit` field
    /// (prost-derive-0.13 src/lib.rs: "Returns the value of `limit`, or the default value if `limit` is unset.")
    pub fn limit(&self) -> (r: u32)
        ensures r == (match self.limit { Some(v) => v, None => 0u32 }),
    { match self.limit { Some(v) => v, None => 0u32 } }
}
/// message WireScanResponse
#[derive(Default)]
pub struct WireScanResponse { pub first_proof: Option<WireCommitProof>, pub proofs: Vec<WireCommitProof>, pub offset: u64 }
pub ghost struct WireScanResponseV { pub first_proof: Option<WireCommitProofV>, pub proofs: Seq<WireCommitProofV>, pub offset: u64 }
impl View for WireScanResponse {
    type V = WireScanResponseV;
    open spec fn view(&self) -> WireScanResponseV { WireScanResponseV { first_proof: oview(self.first_proof), proofs: sview(self.proofs@), offset: self.offset } }
}
// ---- diff.proto (out/diff.rs) ------------------------------------------------------------
/// message WireDiffRequest
#[derive(Default)]
pub struct WireDiffRequest { pub log_type: Option<WireEventLogType>, pub from_hash: Option<WireCommitHash> }
pub ghost struct WireDiffRequestV { pub log_type: Option<WireEventLogTypeV>, pub from_hash: Option<Seq<u8>> }
impl View for WireDiffRequest {
    type V = WireDiffRequestV;
    open spec fn view(&self) -> WireDiffRequestV { WireDiffRequestV { log_type: oview(self.log_type), from_hash: oview(self.from_hash) } }
}
/// message WireDiffResponse
#[derive(Default)]
pub struct WireDiffResponse { pub patch: Vec<WireEventRecord>, pub checkpoint: Option<WireCommitProof> }
pub ghost struct WireDiffResponseV { pub patch: Seq<WireEventRecordV>, pub checkpoint: Option<WireCommitProofV> }
impl View for WireDiffResponse {
    type V = WireDiffResponseV;
    open spec fn view(&self) -> WireDiffResponseV { WireDiffResponseV { patch: sview(self.patch@), checkpoint: oview(self.checkpoint) } }
}
// ---- patch.proto (out/patch.rs) ------------------------------------------------------------
/// message WirePatchRequest
#[derive(Default)]
pub struct WirePatchRequest { pub log_type: Option<WireEventLogType>, pub commit: Option<WireCommitHash>, pub proof: Option<WireCommitProof>, pub patch: Vec<WireEventRecord> }
pub ghost struct WirePatchRequestV { pub log_type: Option<WireEventLogTypeV>, pub commit: Option<Seq<u8>>, pub proof: Option<WireCommitProofV>, pub patch: Seq<WireEventRecordV> }
impl View for WirePatchRequest {
    type V = WirePatchRequestV;
    open spec fn view(&self) -> WirePatchRequestV {
        WirePatchRequestV { log_type: oview(self.log_type), commit: oview(self.commit), proof: oview(self.proof), patch: sview(self.patch@) }
    }
}
/// message WirePatchResponse
#[derive(Default)]
pub struct WirePatchResponse { pub checked_patch: Option<WireCheckedPatch> }
pub ghost struct WirePatchResponseV { pub checked_patch: Option<WireCheckedPatchV> }
impl View for WirePatchResponse {
    type V = WirePatchResponseV;
    open spec fn view(&self) -> WirePatchResponseV { WirePatchResponseV { checked_patch: oview(self.checked_patch) } }
}

// ---- files.proto (out/files.rs) ------------------------------------------------------------
/// message WireExternalFile
#[derive(Default)]
pub struct WireExternalFile { pub folder_id: Vec<u8>, pub secret_id: Vec<u8>, pub file_name: Vec<u8> }
pub ghost struct WireExternalFileV { pub folder_id: Seq<u8>, pub secret_id: Seq<u8>, pub file_name: Seq<u8> }
impl View for WireExternalFile {
    type V = WireExternalFileV;
    open spec fn view(&self) -> WireExternalFileV { WireExternalFileV { folder_id: self.folder_id@, secret_id: self.secret_id@, file_name: self.file_name@ } }
}
/// message WireFileSet
#[derive(Default)]
pub struct WireFileSet { pub files: Vec<WireExternalFile> }
pub ghost struct WireFileSetV { pub files: Seq<WireExternalFileV> }
impl View for WireFileSet {
    type V = WireFileSetV;
    open spec fn view(&self) -> WireFileSetV { WireFileSetV { files: sview(self.files@) } }
}
/// message WireFileTransfersSet
#[derive(Default)]
pub struct WireFileTransfersSet { pub uploads: Option<WireFileSet>, pub downloads: Option<WireFileSet> }
pub ghost struct WireFileTransfersSetV { pub uploads: Option<WireFileSetV>, pub downloads: Option<WireFileSetV> }
impl View for WireFileTransfersSet {
    type V = WireFileTransfersSetV;
    open spec fn view(&self) -> WireFileTransfersSetV { WireFileTransfersSetV { uploads: oview(self.uploads), downloads: oview(self.downloads) } }
}

// ---- sync.proto (out/sync.rs) ------------------------------------------------------------
/// message Contains / WireComparison { oneof inner { bool equal = 1; Contains contains = 2; bool unknown = 3; } }
#[derive(Default)]
pub struct Contains { pub indices: Vec<u64> }
#[derive(Default)]
pub struct WireComparison { pub inner: Option<wire_comparison::Inner> }
pub mod wire_comparison {
    #[allow(unused_imports)] use vstd::prelude::*;
    pub enum Inner { Equal(bool), Contains(super::Contains), Unknown(bool) }
}
pub ghost enum WireComparisonV { Missing, Equal(bool), Contains(Seq<u64>), Unknown(bool) }
impl View for WireComparison {
    type V = WireComparisonV;
    open spec fn view(&self) -> WireComparisonV {
        match self.inner {
            None => WireComparisonV::Missing,
            Some(wire_comparison::Inner::Equal(b)) => WireComparisonV::Equal(b),
            Some(wire_comparison::Inner::Contains(c)) => WireComparisonV::Contains(c.indices@),
            Some(wire_comparison::Inner::Unknown(b)) => WireComparisonV::Unknown(b),
        }
    }
}
/// message WirePatch
#[derive(Default)]
pub struct WirePatch { pub records: Vec<WireEventRecord> }
pub ghost struct WirePatchV { pub records: Seq<WireEventRecordV> }
impl View for WirePatch {
    type V = WirePatchV;
    open spec fn view(&self) -> WirePatchV { WirePatchV { records: sview(self.records@) } }
}
/// message WireDiff
#[derive(Default)]
pub struct WireDiff { pub last_commit: Option<WireCommitHash>, pub patch: Option<WirePatch>, pub checkpoint: Option<WireCommitProof> }
pub ghost struct WireDiffV { pub last_commit: Option<Seq<u8>>, pub patch: Option<WirePatchV>, pub checkpoint: Option<WireCommitProofV> }
impl View for WireDiff {
    type V = WireDiffV;
    open spec fn view(&self) -> WireDiffV { WireDiffV { last_commit: oview(self.last_commit), patch: oview(self.patch), checkpoint: oview(self.checkpoint) } }
}
/// message WireTrackedAccountChange { oneof inner { FolderCreated = 1; FolderUpdated = 2; FolderDeleted = 3 } }
#[derive(Default)]
pub struct WireTrackedAccountFolderCreated { pub folder_id: Vec<u8> }
#[derive(Default)]
pub struct WireTrackedAccountFolderUpdated { pub folder_id: Vec<u8> }
#[derive(Default)]
pub struct WireTrackedAccountFolderDeleted { pub folder_id: Vec<u8> }
#[derive(Default)]
pub struct WireTrackedAccountChange { pub inner: Option<wire_tracked_account_change::Inner> }
pub mod wire_tracked_account_change {
    #[allow(unused_imports)] use vstd::prelude::*;
    pub enum Inner {
        FolderCreated(super::WireTrackedAccountFolderCreated),
        FolderUpdated(super::WireTrackedAccountFolderUpdated),
        FolderDeleted(super::WireTrackedAccountFolderDeleted),
    }
}
pub ghost enum WireTrackedAccountChangeV { Missing, FolderCreated(Seq<u8>), FolderUpdated(Seq<u8>), FolderDeleted(Seq<u8>) }
impl View for WireTrackedAccountChange {
    type V = WireTrackedAccountChangeV;
    open spec fn view(&self) -> WireTrackedAccountChangeV {
        match self.inner {
            None => WireTrackedAccountChangeV::Missing,
            Some(wire_tracked_account_change::Inner::FolderCreated(x)) => WireTrackedAccountChangeV::FolderCreated(x.folder_id@),
            Some(wire_tracked_account_change::Inner::FolderUpdated(x)) => WireTrackedAccountChangeV::FolderUpdated(x.folder_id@),
            Some(wire_tracked_account_change::Inner::FolderDeleted(x)) => WireTrackedAccountChangeV::FolderDeleted(x.folder_id@),
        }
    }
}
/// message WireTrackedDeviceChange { oneof inner { Trusted = 1; Revoked = 2 } }
#[derive(Default)]
pub struct WireTrackedDeviceChangeTrusted { pub device_public_key: Vec<u8> }
#[derive(Default)]
pub struct WireTrackedDeviceChangeRevoked { pub device_public_key: Vec<u8> }
#[derive(Default)]
pub struct WireTrackedDeviceChange { pub inner: Option<wire_tracked_device_change::Inner> }
pub mod wire_tracked_device_change {
    #[allow(unused_imports)] use vstd::prelude::*;
    pub enum Inner { Trusted(super::WireTrackedDeviceChangeTrusted), Revoked(super::WireTrackedDeviceChangeRevoked) }
}
pub ghost enum WireTrackedDeviceChangeV { Missing, Trusted(Seq<u8>), Revoked(Seq<u8>) }
impl View for WireTrackedDeviceChange {
    type V = WireTrackedDeviceChangeV;
    open spec fn view(&self) -> WireTrackedDeviceChangeV {
        match self.inner {
            None => WireTrackedDeviceChangeV::Missing,
            Some(wire_tracked_device_change::Inner::Trusted(x)) => WireTrackedDeviceChangeV::Trusted(x.device_public_key@),
            Some(wire_tracked_device_change::Inner::Revoked(x)) => WireTrackedDeviceChangeV::Revoked(x.device_public_key@),
        }
    }
}
/// message WireTrackedFileChange { oneof inner { Created = 1; Moved = 2; Deleted = 3 } }
#[derive(Default)]
pub struct WireTrackedFileCreated { pub owner: Option<WireSecretPath>, pub file_name: Vec<u8> }
#[derive(Default)]
pub struct WireTrackedFileMoved { pub name: Vec<u8>, pub from: Option<WireSecretPath>, pub dest: Option<WireSecretPath> }
#[derive(Default)]
pub struct WireTrackedFileDeleted { pub owner: Option<WireSecretPath>, pub file_name: Vec<u8> }
#[derive(Default)]
pub struct WireTrackedFileChange { pub inner: Option<wire_tracked_file_change::Inner> }
pub mod wire_tracked_file_change {
    #[allow(unused_imports)] use vstd::prelude::*;
    pub enum Inner { Created(super::WireTrackedFileCreated), Moved(super::WireTrackedFileMoved), Deleted(super::WireTrackedFileDeleted) }
}
pub ghost enum WireTrackedFileChangeV {
    Missing,
    Created { owner: Option<WireSecretPathV>, file_name: Seq<u8> },
    Moved { name: Seq<u8>, from: Option<WireSecretPathV>, dest: Option<WireSecretPathV> },
    Deleted { owner: Option<WireSecretPathV>, file_name: Seq<u8> },
}
impl View for WireTrackedFileChange {
    type V = WireTrackedFileChangeV;
    open spec fn view(&self) -> WireTrackedFileChangeV {
        match self.inner {
            None => WireTrackedFileChangeV::Missing,
            Some(wire_tracked_file_change::Inner::Created(x)) => WireTrackedFileChangeV::Created { owner: oview(x.owner), file_name: x.file_name@ },
            Some(wire_tracked_file_change::Inner::Moved(x)) => WireTrackedFileChangeV::Moved { name: x.name@, from: oview(x.from), dest: oview(x.dest) },
            Some(wire_tracked_file_change::Inner::Deleted(x)) => WireTrackedFileChangeV::Deleted { owner: oview(x.owner), file_name: x.file_name@ },
        }
    }
}
/// message WireTrackedFolderChange { oneof inner { Created = 1; Updated = 2; Deleted = 3 } }
#[derive(Default)]
pub struct WireTrackedFolderChangeCreated { pub secret_id: Vec<u8> }
#[derive(Default)]
pub struct WireTrackedFolderChangeUpdated { pub secret_id: Vec<u8> }
#[derive(Default)]
pub struct WireTrackedFolderChangeDeleted { pub secret_id: Vec<u8> }
#[derive(Default)]
pub struct WireTrackedFolderChange { pub inner: Option<wire_tracked_folder_change::Inner> }
pub mod wire_tracked_folder_change {
    #[allow(unused_imports)] use vstd::prelude::*;
    pub enum Inner {
        Created(super::WireTrackedFolderChangeCreated),
        Updated(super::WireTrackedFolderChangeUpdated),
        Deleted(super::WireTrackedFolderChangeDeleted),
    }
}
pub ghost enum WireTrackedFolderChangeV { Missing, Created(Seq<u8>), Updated(Seq<u8>), Deleted(Seq<u8>) }
impl View for WireTrackedFolderChange {
    type V = WireTrackedFolderChangeV;
    open spec fn view(&self) -> WireTrackedFolderChangeV {
        match self.inner {
            None => WireTrackedFolderChangeV::Missing,
            Some(wire_tracked_folder_change::Inner::Created(x)) => WireTrackedFolderChangeV::Created(x.secret_id@),
            Some(wire_tracked_folder_change::Inner::Updated(x)) => WireTrackedFolderChangeV::Updated(x.secret_id@),
            Some(wire_tracked_folder_change::Inner::Deleted(x)) => WireTrackedFolderChangeV::Deleted(x.secret_id@),
        }
    }
}

/// message WireSyncFolderState / WireSyncStatus
#[derive(Default)]
pub struct WireSyncFolderState { pub folder_id: Vec<u8>, pub state: Option<WireCommitState> }
pub ghost struct WireSyncFolderStateV { pub folder_id: Seq<u8>, pub state: Option<WireCommitStateV> }
impl View for WireSyncFolderState {
    type V = WireSyncFolderStateV;
    open spec fn view(&self) -> WireSyncFolderStateV { WireSyncFolderStateV { folder_id: self.folder_id@, state: oview(self.state) } }
}
#[derive(Default)]
pub struct WireSyncStatus {
    pub root: Option<WireCommitHash>, pub identity: Option<WireCommitState>, pub account: Option<WireCommitState>,
    pub device: Option<WireCommitState>, pub files: Option<WireCommitState>, pub folders: Vec<WireSyncFolderState>,
}
pub ghost struct WireSyncStatusV {
    pub root: Option<Seq<u8>>, pub identity: Option<WireCommitStateV>, pub account: Option<WireCommitStateV>,
    pub device: Option<WireCommitStateV>, pub files: Option<WireCommitStateV>, pub folders: Seq<WireSyncFolderStateV>,
}
impl View for WireSyncStatus {
    type V = WireSyncStatusV;
    open spec fn view(&self) -> WireSyncStatusV {
        WireSyncStatusV { root: oview(self.root), identity: oview(self.identity), account: oview(self.account),
            device: oview(self.device), files: oview(self.files), folders: sview(self.folders@) }
    }
}
/// message WireSyncFolderPatch / WireCreateSet
#[derive(Default)]
pub struct WireSyncFolderPatch { pub folder_id: Vec<u8>, pub patch: Option<WirePatch> }
pub ghost struct WireSyncFolderPatchV { pub folder_id: Seq<u8>, pub patch: Option<WirePatchV> }
impl View for WireSyncFolderPatch {
    type V = WireSyncFolderPatchV;
    open spec fn view(&self) -> WireSyncFolderPatchV { WireSyncFolderPatchV { folder_id: self.folder_id@, patch: oview(self.patch) } }
}
#[derive(Default)]
pub struct WireCreateSet {
    pub identity: Option<WirePatch>, pub account: Option<WirePatch>, pub device: Option<WirePatch>,
    pub files: Option<WirePatch>, pub folders: Vec<WireSyncFolderPatch>,
}
pub ghost struct WireCreateSetV {
    pub identity: Option<WirePatchV>, pub account: Option<WirePatchV>, pub device: Option<WirePatchV>,
    pub files: Option<WirePatchV>, pub folders: Seq<WireSyncFolderPatchV>,
}
impl View for WireCreateSet {
    type V = WireCreateSetV;
    open spec fn view(&self) -> WireCreateSetV {
        WireCreateSetV { identity: oview(self.identity), account: oview(self.account), device: oview(self.device),
            files: oview(self.files), folders: sview(self.folders@) }
    }
}
/// message WireSyncFolderDiff / WireUpdateSet
#[derive(Default)]
pub struct WireSyncFolderDiff { pub folder_id: Vec<u8>, pub diff: Option<WireDiff> }
pub ghost struct WireSyncFolderDiffV { pub folder_id: Seq<u8>, pub diff: Option<WireDiffV> }
impl View for WireSyncFolderDiff {
    type V = WireSyncFolderDiffV;
    open spec fn view(&self) -> WireSyncFolderDiffV { WireSyncFolderDiffV { folder_id: self.folder_id@, diff: oview(self.diff) } }
}
#[derive(Default)]
pub struct WireUpdateSet {
    pub identity: Option<WireDiff>, pub account: Option<WireDiff>, pub device: Option<WireDiff>,
    pub files: Option<WireDiff>, pub folders: Vec<WireSyncFolderDiff>,
}
pub ghost struct WireUpdateSetV {
    pub identity: Option<WireDiffV>, pub account: Option<WireDiffV>, pub device: Option<WireDiffV>,
    pub files: Option<WireDiffV>, pub folders: Seq<WireSyncFolderDiffV>,
}
impl View for WireUpdateSet {
    type V = WireUpdateSetV;
    open spec fn view(&self) -> WireUpdateSetV {
        WireUpdateSetV { identity: oview(self.identity), account: oview(self.account), device: oview(self.device),
            files: oview(self.files), folders: sview(self.folders@) }
    }
}
/// message WireMaybeDiffHasDiff / WireMaybeDiffNeedsCompare / WireMaybeDiff { oneof inner { diff = 1; compare = 2 } }
#[derive(Default)]
pub struct WireMaybeDiffHasDiff { pub diff: Option<WireDiff> }
#[derive(Default)]
pub struct WireMaybeDiffNeedsCompare { pub compare: Option<WireCommitState> }
#[derive(Default)]
pub struct WireMaybeDiff { pub inner: Option<wire_maybe_diff::Inner> }
pub mod wire_maybe_diff {
    #[allow(unused_imports)] use vstd::prelude::*;
    pub enum Inner { Diff(super::WireMaybeDiffHasDiff), Compare(super::WireMaybeDiffNeedsCompare) }
}
pub ghost enum WireMaybeDiffV { Missing, Diff { diff: Option<WireDiffV> }, Compare { compare: Option<WireCommitStateV> } }
impl View for WireMaybeDiff {
    type V = WireMaybeDiffV;
    open spec fn view(&self) -> WireMaybeDiffV {
        match self.inner {
            None => WireMaybeDiffV::Missing,
            Some(wire_maybe_diff::Inner::Diff(d)) => WireMaybeDiffV::Diff { diff: oview(d.diff) },
            Some(wire_maybe_diff::Inner::Compare(c)) => WireMaybeDiffV::Compare { compare: oview(c.compare) },
        }
    }
}
/// message WireSyncFolderMaybeDiff / WireSyncDiff
#[derive(Default)]
pub struct WireSyncFolderMaybeDiff { pub folder_id: Vec<u8>, pub maybe_diff: Option<WireMaybeDiff> }
pub ghost struct WireSyncFolderMaybeDiffV { pub folder_id: Seq<u8>, pub maybe_diff: Option<WireMaybeDiffV> }
impl View for WireSyncFolderMaybeDiff {
    type V = WireSyncFolderMaybeDiffV;
    open spec fn view(&self) -> WireSyncFolderMaybeDiffV { WireSyncFolderMaybeDiffV { folder_id: self.folder_id@, maybe_diff: oview(self.maybe_diff) } }
}
#[derive(Default)]
pub struct WireSyncDiff {
    pub identity: Option<WireMaybeDiff>, pub account: Option<WireMaybeDiff>, pub device: Option<WireMaybeDiff>,
    pub files: Option<WireMaybeDiff>, pub folders: Vec<WireSyncFolderMaybeDiff>,
}
pub ghost struct WireSyncDiffV {
    pub identity: Option<WireMaybeDiffV>, pub account: Option<WireMaybeDiffV>, pub device: Option<WireMaybeDiffV>,
    pub files: Option<WireMaybeDiffV>, pub folders: Seq<WireSyncFolderMaybeDiffV>,
}
impl View for WireSyncDiff {
    type V = WireSyncDiffV;
    open spec fn view(&self) -> WireSyncDiffV {
        WireSyncDiffV { identity: oview(self.identity), account: oview(self.account), device: oview(self.device),
            files: oview(self.files), folders: sview(self.folders@) }
    }
}
/// message WireSyncFolderComparison / WireSyncCompare
#[derive(Default)]
pub struct WireSyncFolderComparison { pub folder_id: Vec<u8>, pub compare: Option<WireComparison> }
pub ghost struct WireSyncFolderComparisonV { pub folder_id: Seq<u8>, pub compare: Option<WireComparisonV> }
impl View for WireSyncFolderComparison {
    type V = WireSyncFolderComparisonV;
    open spec fn view(&self) -> WireSyncFolderComparisonV { WireSyncFolderComparisonV { folder_id: self.folder_id@, compare: oview(self.compare) } }
}
#[derive(Default)]
pub struct WireSyncCompare {
    pub identity: Option<WireComparison>, pub account: Option<WireComparison>, pub device: Option<WireComparison>,
    pub files: Option<WireComparison>, pub folders: Vec<WireSyncFolderComparison>,
}
pub ghost struct WireSyncCompareV {
    pub identity: Option<WireComparisonV>, pub account: Option<WireComparisonV>, pub device: Option<WireComparisonV>,
    pub files: Option<WireComparisonV>, pub folders: Seq<WireSyncFolderComparisonV>,
}
impl View for WireSyncCompare {
    type V = WireSyncCompareV;
    open spec fn view(&self) -> WireSyncCompareV {
        WireSyncCompareV { identity: oview(self.identity), account: oview(self.account), device: oview(self.device),
            files: oview(self.files), folders: sview(self.folders@) }
    }
}
/// message WireSyncPacket
#[derive(Default)]
pub struct WireSyncPacket { pub status: Option<WireSyncStatus>, pub diff: Option<WireSyncDiff>, pub compare: Option<WireSyncCompare> }
pub ghost struct WireSyncPacketV { pub status: Option<WireSyncStatusV>, pub diff: Option<WireSyncDiffV>, pub compare: Option<WireSyncCompareV> }
impl View for WireSyncPacket {
    type V = WireSyncPacketV;
    open spec fn view(&self) -> WireSyncPacketV { WireSyncPacketV { status: oview(self.status), diff: oview(self.diff), compare: oview(self.compare) } }
}

/// message WireTrackedUserFolderChange / WireTrackedChanges / WireMergeOutcome
#[derive(Default)]
pub struct WireTrackedUserFolderChange { pub folder_id: Vec<u8>, pub changes: Vec<WireTrackedFolderChange> }
pub ghost struct WireTrackedUserFolderChangeV { pub folder_id: Seq<u8>, pub changes: Seq<WireTrackedFolderChangeV> }
impl View for WireTrackedUserFolderChange {
    type V = WireTrackedUserFolderChangeV;
    open spec fn view(&self) -> WireTrackedUserFolderChangeV { WireTrackedUserFolderChangeV { folder_id: self.folder_id@, changes: sview(self.changes@) } }
}
#[derive(Default)]
pub struct WireTrackedChanges {
    pub identity: Vec<WireTrackedFolderChange>, pub account: Vec<WireTrackedAccountChange>, pub device: Vec<WireTrackedDeviceChange>,
    pub files: Vec<WireTrackedFileChange>, pub folders: Vec<WireTrackedUserFolderChange>,
}
pub ghost struct WireTrackedChangesV {
    pub identity: Seq<WireTrackedFolderChangeV>, pub account: Seq<WireTrackedAccountChangeV>, pub device: Seq<WireTrackedDeviceChangeV>,
    pub files: Seq<WireTrackedFileChangeV>, pub folders: Seq<WireTrackedUserFolderChangeV>,
}
impl View for WireTrackedChanges {
    type V = WireTrackedChangesV;
    open spec fn view(&self) -> WireTrackedChangesV {
        WireTrackedChangesV { identity: sview(self.identity@), account: sview(self.account@), device: sview(self.device@),
            files: sview(self.files@), folders: sview(self.folders@) }
    }
}
/// (`tracked` is a Verus keyword: raw identifier, same field)
#[derive(Default)]
pub struct WireMergeOutcome { pub changes: u64, pub r#tracked: Option<WireTrackedChanges> }
pub ghost struct WireMergeOutcomeV { pub changes: u64, pub r#tracked: Option<WireTrackedChangesV> }
impl View for WireMergeOutcome {
    type V = WireMergeOutcomeV;
    open spec fn view(&self) -> WireMergeOutcomeV { WireMergeOutcomeV { changes: self.changes, r#tracked: oview(self.r#tracked) } }
}
// ---- notifications.proto (out/notifications.rs) --------------------------------------------
/// message WireNetworkChangeEvent
#[derive(Default)]
pub struct WireNetworkChangeEvent { pub account_id: Vec<u8>, pub connection_id: String, pub root: Option<WireCommitHash>, pub outcome: Option<WireMergeOutcome> }
pub ghost struct WireNetworkChangeEventV { pub account_id: Seq<u8>, pub connection_id: Seq<char>, pub root: Option<Seq<u8>>, pub outcome: Option<WireMergeOutcomeV> }
impl View for WireNetworkChangeEvent {
    type V = WireNetworkChangeEventV;
    open spec fn view(&self) -> WireNetworkChangeEventV {
        WireNetworkChangeEventV { account_id: self.account_id@, connection_id: self.connection_id@, root: oview(self.root), outcome: oview(self.outcome) }
    }
}

/// enum WireEventLogTypeSystem (out/common.rs): the generated enum and its two
/// name functions, bodies verbatim from the generated file; the `ensures` are
/// checked against those bodies (not assumed).
/// (generated: `#[repr(i32)] enum { Identity = 0, Account = 1, Device = 2, Files = 3 }`;
/// the verus! macro rejects explicit discriminants, they are carried by `system_tag`)
#[derive(Clone, Copy)]
pub enum WireEventLogTypeSystem { Identity, Account, Device, Files }
pub open spec fn system_name(s: WireEventLogTypeSystem) -> &'static str {
    match s {
        WireEventLogTypeSystem::Identity => "Identity",
        WireEventLogTypeSystem::Account => "Account",
        WireEventLogTypeSystem::Device => "Device",
        WireEventLogTypeSystem::Files => "Files",
    }
}
pub open spec fn system_tag(s: WireEventLogTypeSystem) -> i32 {
    match s {
        WireEventLogTypeSystem::Identity => 0i32,
        WireEventLogTypeSystem::Account => 1i32,
        WireEventLogTypeSystem::Device => 2i32,
        WireEventLogTypeSystem::Files => 3i32,
    }
}
pub open spec fn system_of_name(value: &str) -> Option<WireEventLogTypeSystem> {
    if value == "Identity" { Some(WireEventLogTypeSystem::Identity) }
    else if value == "Account" { Some(WireEventLogTypeSystem::Account) }
    else if value == "Device" { Some(WireEventLogTypeSystem::Device) }
    else if value == "Files" { Some(WireEventLogTypeSystem::Files) }
    else { None }
}
impl WireEventLogTypeSystem {
    pub fn as_str_name(&self) -> (r: &'static str)
        ensures r == system_name(*self),
    {
        match self {
            Self::Identity => "Identity",
            Self::Account => "Account",
            Self::Device => "Device",
            Self::Files => "Files",
        }
    }
    pub fn from_str_name(value: &str) -> (r: Option<Self>)
        ensures r == system_of_name(value),
    {
        match value {
            "Identity" => Some(Self::Identity),
            "Account" => Some(Self::Account),
            "Device" => Some(Self::Device),
            "Files" => Some(Self::Files),
            _ => None,
        }
    }
}
/// prost::UnknownEnumValue (prost-0.13 src/error.rs)
#[derive(Debug)]
pub struct UnknownEnumValue(pub i32);
/// derive(::prost::Enumeration) generates `impl TryFrom<i32> for E`: Ok exactly
/// for the declared discriminants (prost-derive-0.13 src/lib.rs, try_from arm
/// per variant, `_ => Err(UnknownEnumValue(value))`).
impl core::convert::TryFrom<i32> for WireEventLogTypeSystem {
    type Error = UnknownEnumValue;
    #[verifier::external_body]
    fn try_from(value: i32) -> (r: core::result::Result<WireEventLogTypeSystem, UnknownEnumValue>)
        ensures
            r.is_ok() <==> 0 <= value <= 3,
            r.is_ok() ==> system_tag(r.unwrap()) == value,
    { unimplemented!() }
}
impl vstd::std_specs::convert::TryFromSpecImpl<i32> for WireEventLogTypeSystem {
    open spec fn obeys_try_from_spec() -> bool { false }
    open spec fn try_from_spec(v: i32) -> core::result::Result<Self, Self::Error> { arbitrary() }
}
/// derive(::prost::Enumeration) also generates `E::is_valid(i32)` and `impl From<E> for i32`
/// (prost-derive-0.13 src/lib.rs: is_valid = one of the declared discriminants; from = `value as i32`)
impl WireEventLogTypeSystem {
    pub fn is_valid(value: i32) -> (b: bool)
        ensures b == (0 <= value <= 3),
    { 0 <= value && value <= 3 }
}
impl core::convert::From<WireEventLogTypeSystem> for i32 {
    #[verifier::external_body]
    fn from(s: WireEventLogTypeSystem) -> (r: i32)
        ensures r == system_tag(s),
    { unimplemented!() }
}
impl vstd::std_specs::convert::FromSpecImpl<WireEventLogTypeSystem> for i32 {
    open spec fn obeys_from_spec() -> bool { false }
    open spec fn from_spec(v: WireEventLogTypeSystem) -> i32 { arbitrary() }
}
/// `E as i32` of the generated #[repr(i32)] enum (Verus has no enum casts)
#[verifier::external_body]
pub fn system_as_i32(s: WireEventLogTypeSystem) -> (r: i32)
    ensures r == system_tag(s),
{ unimplemented!() }

// ---- sos_protocol::Error (crates/protocol/src/error.rs) --------------------------------
// thiserror enum; only its #[from] conversions are used by the bindings, the
// payloads are never inspected: carried as an opaque value.
#[derive(Debug)]
pub struct WireError { pub _p: () }
impl vstd::std_specs::convert::FromSpecImpl<TryFromSliceError> for WireError {
    open spec fn obeys_from_spec() -> bool { true }
    open spec fn from_spec(e: TryFromSliceError) -> WireError { WireError { _p: () } }
}
impl core::convert::From<TryFromSliceError> for WireError { fn from(e: TryFromSliceError) -> (r: WireError) { WireError { _p: () } } }
impl vstd::std_specs::convert::FromSpecImpl<ComponentRange> for WireError {
    open spec fn obeys_from_spec() -> bool { true }
    open spec fn from_spec(e: ComponentRange) -> WireError { WireError { _p: () } }
}
impl core::convert::From<ComponentRange> for WireError { fn from(e: ComponentRange) -> (r: WireError) { WireError { _p: () } } }
impl vstd::std_specs::convert::FromSpecImpl<MerkleError> for WireError {
    open spec fn obeys_from_spec() -> bool { true }
    open spec fn from_spec(e: MerkleError) -> WireError { WireError { _p: () } }
}
impl core::convert::From<MerkleError> for WireError { fn from(e: MerkleError) -> (r: WireError) { WireError { _p: () } } }
impl vstd::std_specs::convert::FromSpecImpl<UnknownEnumValue> for WireError {
    open spec fn obeys_from_spec() -> bool { true }
    open spec fn from_spec(e: UnknownEnumValue) -> WireError { WireError { _p: () } }
}
impl core::convert::From<UnknownEnumValue> for WireError { fn from(e: UnknownEnumValue) -> (r: WireError) { WireError { _p: () } } }
impl vstd::std_specs::convert::FromSpecImpl<Error> for WireError {
    open spec fn obeys_from_spec() -> bool { true }
    open spec fn from_spec(e: Error) -> WireError { WireError { _p: () } }
}
impl core::convert::From<Error> for WireError { fn from(e: Error) -> (r: WireError) { WireError { _p: () } } }

/// sos_core::Error (crates/core/src/error.rs) as far as the conversions used by
/// the bindings need it: opaque, built from TryFromSliceError, converted by
/// `#[from]` into the protocol error.
#[derive(Debug)]
pub struct CoreError { pub _p: () }
pub type CoreResult<T> = core::result::Result<T, CoreError>;
impl vstd::std_specs::convert::FromSpecImpl<TryFromSliceError> for CoreError {
    open spec fn obeys_from_spec() -> bool { true }
    open spec fn from_spec(e: TryFromSliceError) -> CoreError { CoreError { _p: () } }
}
impl core::convert::From<TryFromSliceError> for CoreError { fn from(e: TryFromSliceError) -> (r: CoreError) { CoreError { _p: () } } }
impl vstd::std_specs::convert::FromSpecImpl<CoreError> for WireError {
    open spec fn obeys_from_spec() -> bool { true }
    open spec fn from_spec(e: CoreError) -> WireError { WireError { _p: () } }
}
impl core::convert::From<CoreError> for WireError { fn from(e: CoreError) -> (r: WireError) { WireError { _p: () } } }

/// sos_core::events::{WriteEvent, AccountEvent, DeviceEvent, FileEvent}: used by the
/// bindings only as phantom type parameters of Patch<T> / Diff<T>
pub struct WriteEvent {}
pub struct AccountEvent {}
pub struct DeviceEvent {}
pub struct FileEvent {}

// ---- R12 helpers: iterator chains with their std meaning -------------------------------------
/// element-wise `as` casts of a sequence (same length, each element cast)
pub open spec fn seq_usize_of(s: Seq<u64>) -> Seq<usize> { Seq::new(s.len(), |i: int| s[i] as usize) }
pub open spec fn seq_u64_of(s: Seq<usize>) -> Seq<u64> { Seq::new(s.len(), |i: int| s[i] as u64) }
/// `v.into_iter().map(|i| i as usize).collect()` (verified, not assumed)
pub fn vmap_u64_usize(v: Vec<u64>) -> (r: Vec<usize>)
    ensures r@ == seq_usize_of(v@),
{
    let mut out: Vec<usize> = Vec::new();
    for x in it: v
        invariant it.seq() == v@, out@.len() == it.index@,
            forall|i: int| 0 <= i < it.index@ ==> out@[i] == v@[i] as usize,
    { out.push(#[verifier::truncate] (x as usize)); }
    proof { assert(out@ =~= seq_usize_of(v@)); }
    out
}
/// `v.into_iter().map(|i| i as u64).collect()` (verified, not assumed)
pub fn vmap_usize_u64(v: Vec<usize>) -> (r: Vec<u64>)
    ensures r@ == seq_u64_of(v@),
{
    let mut out: Vec<u64> = Vec::new();
    for x in it: v
        invariant it.seq() == v@, out@.len() == it.index@,
            forall|i: int| 0 <= i < it.index@ ==> out@[i] == v@[i] as u64,
    { out.push(x as u64); }
    proof { assert(out@ =~= seq_u64_of(v@)); }
    out
}
/// `v.into_iter().map(f).collect()` where the closure `f` is the repository's text (the R12 rewrite
/// re-inserts its body and declares `ensures w == (<body>)`); that the closure is the element-wise
/// cast is the named call-site obligation [closure_is_the_cast] (verified, not assumed)
pub fn vmap_u64_usize_with<F: Fn(u64) -> usize>(v: Vec<u64>, f: F) -> (r: Vec<usize>)
    requires
        forall|a: u64| call_requires(f, (a,)),
        forall|a: u64, b: usize| call_ensures(f, (a,), b) ==> b == a as usize, /*@PL:closure_is_the_cast*/
    ensures r@ == seq_usize_of(v@),
{
    let mut out: Vec<usize> = Vec::new();
    for x in it: v
        invariant it.seq() == v@, out@.len() == it.index@,
            forall|a: u64| call_requires(f, (a,)),
            forall|a: u64, b: usize| call_ensures(f, (a,), b) ==> b == a as usize,
            forall|i: int| 0 <= i < it.index@ ==> out@[i] == v@[i] as usize,
    { out.push(f(x)); }
    proof { assert(out@ =~= seq_usize_of(v@)); }
    out
}
/// the same for an element-wise cast closure usize -> u64 (verified, not assumed)
pub fn vmap_usize_u64_with<F: Fn(usize) -> u64>(v: Vec<usize>, f: F) -> (r: Vec<u64>)
    requires
        forall|a: usize| call_requires(f, (a,)),
        forall|a: usize, b: u64| call_ensures(f, (a,), b) ==> b == a as u64, /*@PL:closure_is_the_cast*/
    ensures r@ == seq_u64_of(v@),
{
    let mut out: Vec<u64> = Vec::new();
    for x in it: v
        invariant it.seq() == v@, out@.len() == it.index@,
            forall|a: usize| call_requires(f, (a,)),
            forall|a: usize, b: u64| call_ensures(f, (a,), b) ==> b == a as u64,
            forall|i: int| 0 <= i < it.index@ ==> out@[i] == v@[i] as u64,
    { out.push(f(x)); }
    proof { assert(out@ =~= seq_u64_of(v@)); }
    out
}
/// `o.map(|x| x.into())` on an Option (verified, not assumed)
pub fn omap_into<A, B: core::convert::From<A>>(o: Option<A>) -> (r: Option<B>)
    ensures r.is_some() == o.is_some(), o.is_some() ==> call_ensures(B::from, (o.unwrap(),), r.unwrap()),
{ match o { Some(x) => Some(B::from(x)), None => None } }
/// `v.into_iter().map(|x| x.into()).collect()` on a Vec (verified, not assumed)
pub fn vmap_into<A, B: core::convert::From<A>>(v: Vec<A>) -> (r: Vec<B>)
    ensures r@.len() == v@.len(), forall|i: int| 0 <= i < v@.len() ==> call_ensures(B::from, (v@[i],), #[trigger] r@[i]),
{
    let mut out: Vec<B> = Vec::new();
    for x in it: v
        invariant it.seq() == v@, out@.len() == it.index@,
            forall|i: int| 0 <= i < it.index@ ==> call_ensures(B::from, (v@[i],), #[trigger] out@[i]),
    { out.push(B::from(x)); }
    out
}
/// R12d: `Vec::with_capacity(v.len())` where v is a vector that already exists
/// (decoded by prost from the same message): the allocation is proportional to
/// memory already held, the C15 bound [alloc_proportional] holds by construction.
pub fn vec_with_capacity_like<T, U>(src: &Vec<U>) -> (v: Vec<T>)
    ensures v@.len() == 0,
{ Vec::with_capacity(src.len()) }
/// `<[u8]>::to_vec` on a byte slice
#[verifier::external_body]
pub fn slice_to_vec(a: &[u8]) -> (r: Vec<u8>)
    ensures r@ == a@,
{ a.to_vec() }
/// `<[u8; N]>::to_vec` / `<[u8]>::to_vec` on a byte array reference
#[verifier::external_body]
pub fn arr_to_vec<const N: usize>(a: &[u8; N]) -> (r: Vec<u8>)
    ensures r@ == a@,
{ a.to_vec() }
