// ===========================================================================
// prelude/vault_mirror.rs — the storage mirror of an AccessPoint (unit
// `vaultmem`).  Included at top level after the declaration of the trait
// `EncryptedEntry`.  ASSUMPTION: whatever is behind the mirror satisfies the
// trait's contract (for the file-system mirror that is what unit `vaultfile`
// examines).
// ===========================================================================

/// R20: `pub type VaultMirror<E> = Box<dyn EncryptedEntry<Error = E> + Send +
/// Sync + 'static>` (access_point.rs:17).  Verus rejects a `dyn` type with an
/// associated-type binding; the alias is replaced by an opaque type that
/// implements the trait with `Error = E` and nothing but the trait's contract.
#[verifier::external_body]
#[verifier::reject_recursive_types(E)]
pub struct VaultMirror<E> { _p: core::marker::PhantomData<E> }

impl<E: core::fmt::Debug + From<VaultError> + From<CoreError>> EncryptedEntry for VaultMirror<E> {
    type Error = E;
    uninterp spec fn mview(&self) -> VaultV;
    #[verifier::external_body]
    fn set_vault_name(&mut self, name: String) -> (r: core::result::Result<WriteEvent, E>) { unimplemented!() }
    #[verifier::external_body]
    fn set_vault_flags(&mut self, flags: VaultFlags) -> (r: core::result::Result<WriteEvent, E>) { unimplemented!() }
    #[verifier::external_body]
    fn set_vault_meta(&mut self, meta_data: AeadPack) -> (r: core::result::Result<WriteEvent, E>) { unimplemented!() }
    #[verifier::external_body]
    fn create_secret(&mut self, commit: CommitHash, secret: VaultEntry) -> (r: core::result::Result<WriteEvent, E>) { unimplemented!() }
    #[verifier::external_body]
    fn insert_secret(&mut self, id: SecretId, commit: CommitHash, secret: VaultEntry) -> (r: core::result::Result<WriteEvent, E>) { unimplemented!() }
    #[verifier::external_body]
    fn read_secret<'a>(&'a self, id: &SecretId) -> (r: core::result::Result<Option<(Cow<'a, VaultCommit>, ReadEvent)>, E>) { unimplemented!() }
    #[verifier::external_body]
    fn update_secret(&mut self, id: &SecretId, commit: CommitHash, secret: VaultEntry) -> (r: core::result::Result<Option<WriteEvent>, E>) { unimplemented!() }
    #[verifier::external_body]
    fn delete_secret(&mut self, id: &SecretId) -> (r: core::result::Result<Option<WriteEvent>, E>) { unimplemented!() }
    #[verifier::external_body]
    fn replace_vault(&mut self, vault: &Vault) -> (r: core::result::Result<(), E>) { unimplemented!() }
}
