// ===========================================================================
// prelude/dbvault_spec.rs — SPECIFICATION vocabulary of unit `dbvault` (the
// DATABASE vault mirror `VaultDatabaseWriter`, C01 / C02).  Pure spec text and
// PROVED lemmas only: no assumption lives in this file except the fact about
// the text form of a UUID, marked ASSUMPTION (`uuid_text`, `uuid_parse`,
// `cipher_text`, `kdf_text` are uninterpreted NAMES of text forms).  Included at top level
// after prelude/vault_core.rs and prelude/vault_rowcodec.rs.
//
// The ghost relation models the two tables a vault lives in
// (crates/database/sql_migrations/V1__base.sql):
//   folders        (:72)  `identifier TEXT NOT NULL UNIQUE` (:80), `folder_id INTEGER PRIMARY KEY`
//   folder_secrets (:118) `identifier TEXT NOT NULL UNIQUE` (:126), `folder_id INTEGER NOT NULL`
// A table with a UNIQUE NOT NULL column is a MAP from that column to the rest of the row;
// this is how both tables are modelled (the UNIQUE constraint is part of the type).
// `secret_id` (the rowid of folder_secrets) is not modelled: no code under contract reads it
// and no table references it (V1__base.sql has no `REFERENCES folder_secrets`).
// Every other table of the database is the abstract component `rest`.
// ===========================================================================

/// one row of `folders` without its key `identifier`; every column as the entity binds / reads it
/// (crates/database/src/entity/folder.rs `FolderRow`, `insert_folder`, `update_folder`)
pub ghost struct FolderRowV {
    pub row_id: int,                  // folder_id INTEGER PRIMARY KEY
    pub account_id: int,
    pub created_at: Seq<char>,
    pub modified_at: Seq<char>,
    pub name: Seq<char>,
    pub salt: Option<Seq<char>>,
    pub meta: Option<Seq<u8>>,        // encoded AeadPack
    pub seed: Option<Seq<u8>>,
    pub version: int,
    pub cipher: Seq<char>,
    pub kdf: Seq<char>,
    pub flags: Seq<u8>,               // u64 little endian
}
/// one row of `folder_secrets` without its key `identifier`
pub ghost struct SecretRowV {
    pub folder_id: int,               // folders.folder_id of the owning folder
    pub created_at: Seq<char>,
    pub modified_at: Seq<char>,
    pub commit: Seq<u8>,              // commit_hash BLOB(32)
    pub meta: Seq<u8>,                // encoded AeadPack
    pub secret: Seq<u8>,              // encoded AeadPack
}
/// every table other than `folders` / `folder_secrets` (abstract)
pub ghost struct RestV { pub tables: int }
/// the ghost database
pub ghost struct VDbV {
    pub folders: IMap<Seq<char>, FolderRowV>,
    pub secrets: IMap<Seq<char>, SecretRowV>,
    pub rest: RestV,
}
/// schema invariant `folder_id INTEGER PRIMARY KEY` (V1__base.sql:74): one folder row per row id
pub open spec fn db_wf(db: VDbV) -> bool {
    forall|a: Seq<char>, b: Seq<char>| db.folders.contains_key(a) && db.folders.contains_key(b)
        && (#[trigger] db.folders[a]).row_id == (#[trigger] db.folders[b]).row_id ==> a == b
}

// ---- the text of a UUID -----------------------------------------------------------------
/// `uuid::Uuid::to_string()` (uuid-1.18.1 src/fmt.rs `impl Display for Uuid` = `LowerHex` of
/// `Hyphenated`): the 36 character lower-case hyphenated form of the 16 bytes
pub uninterp spec fn uuid_text(b: Seq<u8>) -> Seq<char>;
/// `<Uuid as FromStr>::from_str` (uuid-1.18.1 src/parser.rs `Uuid::parse_str`)
pub uninterp spec fn uuid_parse(s: Seq<char>) -> Option<Seq<u8>>;
/// **ASSUMPTION UUID-TEXT** (uuid-1.18.1 src/parser.rs: `parse_str` accepts the hyphenated form
/// and reads the 32 hex digits back into the 16 bytes): parsing the text of an id gives the id.
/// Consequence: two different ids have different texts.  NOT broadcast; the contracts of
/// this unit are stated over the text and do not need it, only `lemma_other_id_other_key` does.
pub axiom fn axiom_uuid_text_roundtrip(b: Seq<u8>)
    requires b.len() == 16,
    ensures uuid_parse(uuid_text(b)) == Some(b);
pub proof fn lemma_other_id_other_key(a: Seq<u8>, b: Seq<u8>)
    requires a.len() == 16, b.len() == 16, a != b,
    ensures uuid_text(a) != uuid_text(b),
{
    axiom_uuid_text_roundtrip(a);
    axiom_uuid_text_roundtrip(b);
}

// ---- what the SQL statements of entity/folder.rs do to the relation -----------------------------
// (each function is quoted next to the pinned stand-in that uses it, prelude/dbvault_types.rs)

/// "UPDATE folders SET name = ?1, modified_at = ?2 WHERE identifier = ?3"
pub open spec fn sql_update_name(db: VDbV, f: Seq<char>, name: Seq<char>, m: Seq<char>) -> VDbV {
    if db.folders.contains_key(f) {
        VDbV { folders: db.folders.insert(f, FolderRowV { name: name, modified_at: m, ..db.folders[f] }), ..db }
    } else { db }
}
/// "UPDATE folders SET flags = ?1, modified_at = ?2 WHERE identifier = ?3"
pub open spec fn sql_update_flags(db: VDbV, f: Seq<char>, flags: Seq<u8>, m: Seq<char>) -> VDbV {
    if db.folders.contains_key(f) {
        VDbV { folders: db.folders.insert(f, FolderRowV { flags: flags, modified_at: m, ..db.folders[f] }), ..db }
    } else { db }
}
/// "UPDATE folders SET meta = ?1, modified_at = ?2 WHERE identifier = ?3"
pub open spec fn sql_update_meta(db: VDbV, f: Seq<char>, meta: Seq<u8>, m: Seq<char>) -> VDbV {
    if db.folders.contains_key(f) {
        VDbV { folders: db.folders.insert(f, FolderRowV { meta: Some(meta), modified_at: m, ..db.folders[f] }), ..db }
    } else { db }
}
/// the ten columns `update_folder` sets (entity/folder.rs:689-705) and their new values
pub ghost struct FolderColsV {
    pub modified_at: Seq<char>,
    pub identifier: Seq<char>,
    pub name: Seq<char>,
    pub salt: Option<Seq<char>>,
    pub meta: Option<Seq<u8>>,
    pub seed: Option<Seq<u8>>,
    pub version: int,
    pub cipher: Seq<char>,
    pub kdf: Seq<char>,
    pub flags: Seq<u8>,
}
pub open spec fn with_cols(r: FolderRowV, c: FolderColsV) -> FolderRowV {
    FolderRowV {
        modified_at: c.modified_at, name: c.name, salt: c.salt, meta: c.meta, seed: c.seed,
        version: c.version, cipher: c.cipher, kdf: c.kdf, flags: c.flags,
        row_id: r.row_id, account_id: r.account_id, created_at: r.created_at,
    }
}
/// "UPDATE folders SET modified_at = ?1, identifier = ?2, name = ?3, salt = ?4, meta = ?5, seed = ?6,
///  version = ?7, cipher = ?8, kdf = ?9, flags = ?10 WHERE identifier=?11"
/// (the row keeps folder_id, account_id, created_at; it MOVES to the key `c.identifier`)
pub open spec fn sql_update_folder(db: VDbV, f: Seq<char>, c: FolderColsV) -> VDbV {
    if db.folders.contains_key(f) {
        VDbV { folders: db.folders.remove(f).insert(c.identifier, with_cols(db.folders[f], c)), ..db }
    } else { db }
}
/// the statement violates `identifier UNIQUE` (and fails) when it would move the row onto another row's key
pub open spec fn update_folder_conflict(db: VDbV, f: Seq<char>, c: FolderColsV) -> bool {
    db.folders.contains_key(f) && c.identifier != f && db.folders.contains_key(c.identifier)
}

/// the seven values `insert_secret_by_row_id` binds (entity/folder.rs:773-781)
pub ghost struct SecretColsV {
    pub identifier: Seq<char>,
    pub created_at: Seq<char>,
    pub modified_at: Seq<char>,
    pub commit: Seq<u8>,
    pub meta: Seq<u8>,
    pub secret: Seq<u8>,
}
/// "INSERT INTO folder_secrets (folder_id, identifier, commit_hash, meta, secret, created_at, modified_at)
///  VALUES (?1, ?2, ?3, ?4, ?5, ?6, ?7)
///  ON CONFLICT (identifier) DO UPDATE SET folder_id=excluded.folder_id, commit_hash=excluded.commit_hash,
///  meta=excluded.meta, secret=excluded.secret, modified_at=excluded.modified_at"
/// A row with that identifier — IN WHATEVER FOLDER — is overwritten and moved to `rid`
/// (it keeps its created_at); otherwise a new row is added.
pub open spec fn sql_upsert_secret(db: VDbV, rid: int, s: SecretColsV) -> VDbV {
    let created = if db.secrets.contains_key(s.identifier) { db.secrets[s.identifier].created_at } else { s.created_at };
    VDbV { secrets: db.secrets.insert(s.identifier, SecretRowV {
        folder_id: rid, created_at: created, modified_at: s.modified_at, commit: s.commit, meta: s.meta, secret: s.secret }), ..db }
}
/// the WHERE clause "folder_id=?5 AND identifier = ?6" / "folder_id = ?1 AND identifier = ?2"
pub open spec fn secret_in(db: VDbV, rid: int, id: Seq<char>) -> bool {
    db.secrets.contains_key(id) && db.secrets[id].folder_id == rid
}
/// "UPDATE folder_secrets SET modified_at=?1, commit_hash=?2, meta=?3, secret=?4 WHERE folder_id=?5 AND identifier = ?6"
pub open spec fn sql_update_secret(db: VDbV, rid: int, id: Seq<char>, commit: Seq<u8>, meta: Seq<u8>, secret: Seq<u8>, m: Seq<char>) -> VDbV {
    if secret_in(db, rid, id) {
        VDbV { secrets: db.secrets.insert(id, SecretRowV { modified_at: m, commit: commit, meta: meta, secret: secret, ..db.secrets[id] }), ..db }
    } else { db }
}
/// "DELETE FROM folder_secrets WHERE folder_id = ?1 AND identifier = ?2"
pub open spec fn sql_delete_secret(db: VDbV, rid: int, id: Seq<char>) -> VDbV {
    if secret_in(db, rid, id) { VDbV { secrets: db.secrets.remove(id), ..db } } else { db }
}
/// "DELETE FROM folder_secrets WHERE folder_id = ?1"
pub open spec fn sql_delete_all_secrets(db: VDbV, rid: int) -> VDbV {
    VDbV { secrets: IMap::new(|k: Seq<char>| db.secrets.contains_key(k) && db.secrets[k].folder_id != rid, |k: Seq<char>| db.secrets[k]), ..db }
}

// ---- the view of ONE folder ---------------------------------------------------------------------
/// what a secret row holds for the vault: (commit hash, encoded meta AeadPack, encoded secret AeadPack)
pub type SecV = (Seq<u8>, Seq<u8>, Seq<u8>);
pub open spec fn sec_of(r: SecretRowV) -> SecV { (r.commit, r.meta, r.secret) }
/// the secret rows of the folder with row id `rid`:  identifier text -> (commit, meta, secret)
pub open spec fn secrets_of(db: VDbV, rid: int) -> IMap<Seq<char>, SecV> {
    IMap::new(|k: Seq<char>| secret_in(db, rid, k), |k: Seq<char>| sec_of(db.secrets[k]))
}
/// the folder row without the bookkeeping column `modified_at` (every UPDATE stamps it with the current time)
pub open spec fn unstamped(r: FolderRowV) -> FolderRowV { FolderRowV { modified_at: Seq::<char>::empty(), ..r } }
/// the folder a database holds under an identifier: its row and its secret rows
pub ghost struct DbFolderV { pub row: FolderRowV, pub secrets: IMap<Seq<char>, SecV> }
pub open spec fn has_folder(db: VDbV, f: Seq<char>) -> bool { db.folders.contains_key(f) }
pub open spec fn rid_of(db: VDbV, f: Seq<char>) -> int { db.folders[f].row_id }
pub open spec fn dview(db: VDbV, f: Seq<char>) -> DbFolderV {
    DbFolderV { row: unstamped(db.folders[f]), secrets: secrets_of(db, rid_of(db, f)) }
}
pub open spec fn with_name(v: DbFolderV, name: Seq<char>) -> DbFolderV { DbFolderV { row: FolderRowV { name: name, ..v.row }, ..v } }
pub open spec fn with_flags(v: DbFolderV, flags: u64) -> DbFolderV { DbFolderV { row: FolderRowV { flags: le64(flags), ..v.row }, ..v } }
pub open spec fn with_meta(v: DbFolderV, meta: Option<AeadPackV>) -> DbFolderV {
    DbFolderV { row: FolderRowV { meta: match meta { Some(m) => Some(enc_AeadPack(m)), None => None }, ..v.row }, ..v }
}
pub open spec fn with_secrets(v: DbFolderV, s: IMap<Seq<char>, SecV>) -> DbFolderV { DbFolderV { secrets: s, ..v } }
/// the row `SecretRow::new(id, commit, entry)` stores for a vault entry
pub open spec fn sec_row(c: VaultCommitV) -> SecV { (c.commit, enc_AeadPack(c.entry.meta), enc_AeadPack(c.entry.secret)) }
pub open spec fn vc_of(commit: CommitHash, secret: VaultEntry) -> VaultCommitV { VaultCommitV { commit: commit.0@, entry: secret@ } }
/// `decode::<AeadPack>(bytes)`: the pack at the start of the buffer (binary-stream 10.0.0
/// src/futures/mod.rs `decode`: a reader over the buffer, `T::decode`; trailing bytes are not looked at)
pub open spec fn dec_pack(b: Seq<u8>) -> Option<AeadPackV> {
    match dec_AeadPack(b) { Some((v, _rest)) => Some(v), None => None }
}
/// inserting identifier / value pairs one after the other (a later pair replaces an earlier one with the same identifier)
pub open spec fn ins_all(m: IMap<Seq<char>, SecV>, kv: Seq<(Seq<char>, SecV)>) -> IMap<Seq<char>, SecV>
    decreases kv.len(),
{
    if kv.len() == 0 { m } else { ins_all(m, kv.drop_last()).insert(kv.last().0, kv.last().1) }
}
/// (identifier text, stored row) of every entry of a vault, in IndexMap order
pub open spec fn vault_kv(s: Seq<(Seq<u8>, VaultCommitV)>) -> Seq<(Seq<char>, SecV)> {
    Seq::new(s.len(), |i: int| (uuid_text(s[i].0), sec_row(s[i].1)))
}
/// the secret rows a vault turns into (`replace_all_secrets`: one upsert per entry, in IndexMap order):
/// identifier text -> stored row; nothing else (lemma_vault_rows_dom)
pub open spec fn vault_rows(s: Seq<(Seq<u8>, VaultCommitV)>) -> IMap<Seq<char>, SecV> { ins_all(IMap::empty(), vault_kv(s)) }
/// every entry of the vault is one the encoder accepts
pub open spec fn vault_valid(v: VaultV) -> bool {
    &&& forall|i: int| 0 <= i < v.secrets.len() ==> valid_AeadPack((#[trigger] v.secrets[i]).1.entry.meta) && valid_AeadPack(v.secrets[i].1.entry.secret)
    &&& v.head.meta matches Some(p) ==> valid_AeadPack(p)
}
/// the text of a cipher / key derivation function (`impl Display`), as `FolderRow::new_update` stores it
pub uninterp spec fn cipher_text(c: Cipher) -> Seq<char>;
pub uninterp spec fn kdf_text(k: KeyDerivation) -> Seq<char>;
/// the ten columns `FolderRow::new_update(vault)` computes (entity/folder.rs:106-128), `m` = the time text
pub open spec fn vault_cols(v: VaultV, m: Seq<char>) -> FolderColsV {
    FolderColsV {
        modified_at: m,
        identifier: uuid_text(v.head.summary.id),
        name: v.head.summary.name,
        salt: v.head.auth.salt,
        meta: match v.head.meta { Some(p) => Some(enc_AeadPack(p)), None => None },
        seed: v.head.auth.seed,
        version: v.head.summary.version as int,
        cipher: cipher_text(v.head.summary.cipher),
        kdf: kdf_text(v.head.summary.kdf),
        flags: le64(v.head.summary.flags),
    }
}
/// the folder `vault` is in the database: its header columns (the row keeps row id, account, created_at of
/// `keep`) and exactly its secret rows
pub open spec fn vault_folder(v: VaultV, keep: FolderRowV) -> DbFolderV {
    DbFolderV { row: unstamped(with_cols(keep, vault_cols(v, Seq::<char>::empty()))), secrets: vault_rows(v.secrets) }
}

// ---- frame ------------------------------------------------------------------------------------
/// every row that is not the folder row `f` (which may have moved to `f2`) and not a secret row of
/// the folder with row id `rid` is the same in `a` and `b`; so is every other table
pub open spec fn others_same(a: VDbV, b: VDbV, f: Seq<char>, f2: Seq<char>, rid: int) -> bool {
    &&& a.rest == b.rest
    &&& a.folders.remove(f) == b.folders.remove(f2)
    &&& forall|k: Seq<char>| #![trigger a.secrets[k]] a.secrets.contains_key(k) && a.secrets[k].folder_id != rid ==> b.secrets.contains_key(k) && b.secrets[k] == a.secrets[k]
    &&& forall|k: Seq<char>| #![trigger b.secrets[k]] b.secrets.contains_key(k) && b.secrets[k].folder_id != rid ==> a.secrets.contains_key(k) && a.secrets[k] == b.secrets[k]
}
/// no folder other than the one with row id `rid` holds a secret row with identifier `id`
pub open spec fn id_not_elsewhere(db: VDbV, rid: int, id: Seq<char>) -> bool {
    db.secrets.contains_key(id) ==> db.secrets[id].folder_id == rid
}

// ---- lemmas on the relation ---------------------------------------------------------------------
pub proof fn lemma_others_same_refl(a: VDbV, f: Seq<char>, rid: int)
    ensures others_same(a, a, f, f, rid),
{}

/// a folder-row UPDATE that keeps the key: the folder's view changes in the row only, everything else stays
pub proof fn lemma_row_update(db: VDbV, f: Seq<char>, r2: FolderRowV)
    requires db_wf(db), db.folders.contains_key(f), r2.row_id == db.folders[f].row_id,
    ensures ({
        let db2 = VDbV { folders: db.folders.insert(f, r2), ..db };
        &&& db_wf(db2)
        &&& has_folder(db2, f)
        &&& dview(db2, f) == (DbFolderV { row: unstamped(r2), secrets: dview(db, f).secrets })
        &&& others_same(db, db2, f, f, rid_of(db, f))
    }),
{
    let db2 = VDbV { folders: db.folders.insert(f, r2), ..db };
    assert(secrets_of(db2, rid_of(db2, f)) =~= secrets_of(db, rid_of(db, f)));
    assert(db.folders.remove(f) =~= db2.folders.remove(f));
    assert forall|a: Seq<char>, b: Seq<char>| db2.folders.contains_key(a) && db2.folders.contains_key(b)
        && (#[trigger] db2.folders[a]).row_id == (#[trigger] db2.folders[b]).row_id implies a == b by {
        assert(db.folders.contains_key(a) && db.folders.contains_key(b));
        assert(db.folders[a].row_id == db2.folders[a].row_id);
        assert(db.folders[b].row_id == db2.folders[b].row_id);
    }
}

/// the upsert seen from the folder it writes to
pub proof fn lemma_upsert(db: VDbV, f: Seq<char>, s: SecretColsV)
    requires db.folders.contains_key(f),
    ensures ({
        let rid = rid_of(db, f);
        let db2 = sql_upsert_secret(db, rid, s);
        &&& db_wf(db) ==> db_wf(db2)
        &&& has_folder(db2, f)
        &&& dview(db2, f) == with_secrets(dview(db, f), dview(db, f).secrets.insert(s.identifier, (s.commit, s.meta, s.secret)))
        &&& id_not_elsewhere(db, rid, s.identifier) ==> others_same(db, db2, f, f, rid)
    }),
{
    let rid = rid_of(db, f);
    let db2 = sql_upsert_secret(db, rid, s);
    assert(secrets_of(db2, rid) =~= secrets_of(db, rid).insert(s.identifier, (s.commit, s.meta, s.secret)));
    if id_not_elsewhere(db, rid, s.identifier) {
        assert(db.folders.remove(f) =~= db2.folders.remove(f));
    }
}

pub proof fn lemma_update_secret(db: VDbV, f: Seq<char>, id: Seq<char>, commit: Seq<u8>, meta: Seq<u8>, secret: Seq<u8>, m: Seq<char>)
    requires db.folders.contains_key(f),
    ensures ({
        let rid = rid_of(db, f);
        let db2 = sql_update_secret(db, rid, id, commit, meta, secret, m);
        let old_s = dview(db, f).secrets;
        &&& db_wf(db) ==> db_wf(db2)
        &&& has_folder(db2, f)
        &&& secret_in(db, rid, id) == old_s.contains_key(id)
        &&& dview(db2, f) == with_secrets(dview(db, f), if old_s.contains_key(id) { old_s.insert(id, (commit, meta, secret)) } else { old_s })
        &&& others_same(db, db2, f, f, rid)
    }),
{
    let rid = rid_of(db, f);
    let db2 = sql_update_secret(db, rid, id, commit, meta, secret, m);
    let old_s = dview(db, f).secrets;
    if secret_in(db, rid, id) {
        assert(secrets_of(db2, rid) =~= old_s.insert(id, (commit, meta, secret)));
    } else {
        assert(secrets_of(db2, rid) =~= old_s);
    }
    assert(db.folders.remove(f) =~= db2.folders.remove(f));
}

pub proof fn lemma_delete_secret(db: VDbV, f: Seq<char>, id: Seq<char>)
    requires db.folders.contains_key(f),
    ensures ({
        let rid = rid_of(db, f);
        let db2 = sql_delete_secret(db, rid, id);
        let old_s = dview(db, f).secrets;
        &&& db_wf(db) ==> db_wf(db2)
        &&& has_folder(db2, f)
        &&& secret_in(db, rid, id) == old_s.contains_key(id)
        &&& dview(db2, f) == with_secrets(dview(db, f), old_s.remove(id))
        &&& others_same(db, db2, f, f, rid)
    }),
{
    let rid = rid_of(db, f);
    let db2 = sql_delete_secret(db, rid, id);
    let old_s = dview(db, f).secrets;
    assert(secrets_of(db2, rid) =~= old_s.remove(id));
    assert(db.folders.remove(f) =~= db2.folders.remove(f));
}

/// after "DELETE FROM folder_secrets WHERE folder_id = ?1" the folder has no secret row, the others have theirs
pub proof fn lemma_delete_all(db: VDbV, f: Seq<char>)
    requires db.folders.contains_key(f),
    ensures ({
        let rid = rid_of(db, f);
        let db2 = sql_delete_all_secrets(db, rid);
        &&& db2.folders == db.folders
        &&& secrets_of(db2, rid) == IMap::<Seq<char>, SecV>::empty()
        &&& others_same(db, db2, f, f, rid)
    }),
{
    let rid = rid_of(db, f);
    let db2 = sql_delete_all_secrets(db, rid);
    assert(secrets_of(db2, rid) =~= IMap::<Seq<char>, SecV>::empty());
    assert(db.folders.remove(f) =~= db2.folders.remove(f));
}

/// "no stale row survives": the rows of a vault are under the identifiers of its entries and nowhere else
pub proof fn lemma_ins_all_dom(m: IMap<Seq<char>, SecV>, kv: Seq<(Seq<char>, SecV)>, k: Seq<char>)
    ensures ins_all(m, kv).contains_key(k) <==> (m.contains_key(k) || exists|i: int| 0 <= i < kv.len() && (#[trigger] kv[i]).0 == k),
    decreases kv.len(),
{
    if kv.len() > 0 {
        let p = kv.drop_last();
        lemma_ins_all_dom(m, p, k);
        if exists|i: int| 0 <= i < p.len() && (#[trigger] p[i]).0 == k {
            let i = choose|i: int| 0 <= i < p.len() && (#[trigger] p[i]).0 == k;
            assert(kv[i] == p[i]);
        }
        if exists|i: int| 0 <= i < kv.len() && (#[trigger] kv[i]).0 == k {
            let i = choose|i: int| 0 <= i < kv.len() && (#[trigger] kv[i]).0 == k;
            if i < p.len() { assert(p[i] == kv[i]); } else { assert(kv.last().0 == k); }
        }
    }
}
pub proof fn lemma_vault_rows_dom(s: Seq<(Seq<u8>, VaultCommitV)>, k: Seq<char>)
    ensures vault_rows(s).contains_key(k) <==> exists|i: int| 0 <= i < s.len() && uuid_text((#[trigger] s[i]).0) == k,
{
    lemma_ins_all_dom(IMap::empty(), vault_kv(s), k);
    if exists|i: int| 0 <= i < vault_kv(s).len() && (#[trigger] vault_kv(s)[i]).0 == k {
        let i = choose|i: int| 0 <= i < vault_kv(s).len() && (#[trigger] vault_kv(s)[i]).0 == k;
        assert(uuid_text(s[i].0) == k);
    }
    if exists|i: int| 0 <= i < s.len() && uuid_text((#[trigger] s[i]).0) == k {
        let i = choose|i: int| 0 <= i < s.len() && uuid_text((#[trigger] s[i]).0) == k;
        assert(vault_kv(s)[i].0 == k);
    }
}

/// the folder-row UPDATE of `replace_all_secrets` (all ten columns, the key may change)
pub proof fn lemma_update_folder(db: VDbV, f: Seq<char>, c: FolderColsV)
    requires db_wf(db), db.folders.contains_key(f), !update_folder_conflict(db, f, c),
    ensures ({
        let db2 = sql_update_folder(db, f, c);
        &&& db_wf(db2)
        &&& has_folder(db2, c.identifier)
        &&& rid_of(db2, c.identifier) == rid_of(db, f)
        &&& dview(db2, c.identifier) == (DbFolderV { row: unstamped(with_cols(db.folders[f], c)), secrets: dview(db, f).secrets })
        &&& others_same(db, db2, f, c.identifier, rid_of(db, f))
    }),
{
    let db2 = sql_update_folder(db, f, c);
    assert(secrets_of(db2, rid_of(db2, c.identifier)) =~= secrets_of(db, rid_of(db, f)));
    assert(db.folders.remove(f) =~= db2.folders.remove(c.identifier));
    assert forall|a: Seq<char>, b: Seq<char>| db2.folders.contains_key(a) && db2.folders.contains_key(b)
        && (#[trigger] db2.folders[a]).row_id == (#[trigger] db2.folders[b]).row_id implies a == b by {
        if a != c.identifier { assert(db.folders.contains_key(a) && db.folders[a] == db2.folders[a]); }
        if b != c.identifier { assert(db.folders.contains_key(b) && db.folders[b] == db2.folders[b]); }
        if a == c.identifier && b != c.identifier { assert(db.folders[f].row_id == db.folders[b].row_id); }
        if b == c.identifier && a != c.identifier { assert(db.folders[f].row_id == db.folders[a].row_id); }
    }
}

/// `others_same` composes (the steps of one transaction)
pub proof fn lemma_others_same_trans(a: VDbV, b: VDbV, c: VDbV, f: Seq<char>, f2: Seq<char>, f3: Seq<char>, rid: int)
    requires others_same(a, b, f, f2, rid), others_same(b, c, f2, f3, rid),
    ensures others_same(a, c, f, f3, rid),
{
    assert forall|k: Seq<char>| #![trigger a.secrets[k]] a.secrets.contains_key(k) && a.secrets[k].folder_id != rid implies c.secrets.contains_key(k) && c.secrets[k] == a.secrets[k] by {
        assert(b.secrets.contains_key(k) && b.secrets[k] == a.secrets[k]);
    }
    assert forall|k: Seq<char>| #![trigger c.secrets[k]] c.secrets.contains_key(k) && c.secrets[k].folder_id != rid implies a.secrets.contains_key(k) && a.secrets[k] == c.secrets[k] by {
        assert(b.secrets.contains_key(k) && b.secrets[k] == c.secrets[k]);
    }
}

/// C01 "reading a secret returns exactly the meta data and value last written for it": the row
/// `insert_secret` / `update_secret` store decodes to the entry that was written
pub proof fn lemma_stored_row_reads_back(c: VaultCommitV)
    requires valid_AeadPack(c.entry.meta), valid_AeadPack(c.entry.secret),
    ensures dec_pack(sec_row(c).1) == Some(c.entry.meta), dec_pack(sec_row(c).2) == Some(c.entry.secret), sec_row(c).0 == c.commit,
{
    lemma_roundtrip_AeadPack(c.entry.meta, Seq::<u8>::empty());
    lemma_roundtrip_AeadPack(c.entry.secret, Seq::<u8>::empty());
    assert(enc_AeadPack(c.entry.meta) + Seq::<u8>::empty() =~= enc_AeadPack(c.entry.meta));
    assert(enc_AeadPack(c.entry.secret) + Seq::<u8>::empty() =~= enc_AeadPack(c.entry.secret));
}
