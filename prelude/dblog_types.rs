// ===========================================================================
// prelude/dblog_types.rs — stand-ins of unit `dblog` for everything the
// database event log (crates/database/src/event_log.rs) calls but that lives
// outside the unit.  Every `external_body` below is an ASSUMPTION (trusted
// base); each names the source that was read.  Included at TOP LEVEL, after
// the extracted record / row types and prelude/dblog_spec.rs.
//
// PINNED SQL.  No verifier here interprets SQL.  The contracts of the
// `EventEntity` functions are READ OFF THE SQL TEXT the functions build with
// `sql_query_builder` (quoted next to each contract) and the table definitions
// of crates/database/sql_migrations/V1__base.sql; they are stated over the
// ghost relation `DbV` of prelude/dblog_spec.rs.  If the SQL text in
// crates/database/src/entity/event.rs changes, these contracts are void.
// ===========================================================================

/// binary_stream::futures::{Encodable, Decodable}: only used as bounds here
pub trait Encodable {}
pub trait Decodable {}

/// async_sqlite::rusqlite::Error (rusqlite 0.37.0) — opaque
#[derive(Debug)]
pub struct SqlError { pub _p: () }
/// async_sqlite::Error (async-sqlite 0.5.3 src/error.rs) — opaque
#[derive(Debug)]
pub struct AsyncSqliteError { pub _p: () }

// ---- connection / transaction ------------------------------------------------------
/// rusqlite::Connection (0.37.0).  Ghost state: the committed content of the event
/// tables.  R19: the connection that `async_sqlite::Client` owns on its worker thread
/// is threaded through the methods of the event log as `db`.
#[verifier::external_body]
pub struct Connection { _p: () }
impl View for Connection {
    type V = DbV;
    uninterp spec fn view(&self) -> DbV;
}
/// rusqlite::Transaction (0.37.0 src/transaction.rs): `Connection::transaction`
/// executes BEGIN DEFERRED; statements run through the transaction see and change its
/// working state `cur()`; `commit` makes the working state the connection's state;
/// dropping the value without `commit` rolls back (`DropBehavior::Rollback`), i.e. the
/// connection keeps the state it had.  R19: the stand-in does not borrow the connection;
/// `commit` is handed the connection it was started on.
#[verifier::external_body]
pub struct Transaction { _p: () }
impl Transaction {
    pub uninterp spec fn cur(&self) -> DbV;
    /// `Transaction::commit` (COMMIT).  On failure the transaction is dropped: rollback.
    #[verifier::external_body]
    pub fn commit(self, conn: &mut Connection) -> (r: core::result::Result<(), SqlError>)
        ensures
            r is Ok ==> final(conn)@ == self.cur(),
            r is Err ==> final(conn)@ == old(conn)@,
    { unimplemented!() }
    /// `Transaction::rollback` (ROLLBACK) and `Transaction::finish` with the default
    /// `DropBehavior::Rollback`: the working state is discarded; the stand-in transaction
    /// does not borrow the connection, which therefore keeps the state it had
    #[verifier::external_body]
    pub fn rollback(self) -> (r: core::result::Result<(), SqlError>)
    { unimplemented!() }
    #[verifier::external_body]
    pub fn finish(self) -> (r: core::result::Result<(), SqlError>)
    { unimplemented!() }
}
impl Connection {
    /// `Connection::transaction(&mut self)`
    #[verifier::external_body]
    pub fn transaction(&mut self) -> (r: core::result::Result<Transaction, SqlError>)
        ensures
            final(self)@ == old(self)@,
            r matches Ok(tx) ==> tx.cur() == old(self)@,
    { unimplemented!() }
}
/// what the statements issued through a handle see
pub trait HasDb {
    spec fn dbs(&self) -> DbV;
}
impl HasDb for Transaction { open spec fn dbs(&self) -> DbV { self.cur() } }
impl HasDb for Connection { open spec fn dbs(&self) -> DbV { self@ } }
impl<'a> HasDb for &'a Connection { open spec fn dbs(&self) -> DbV { (**self)@ } }

/// async_sqlite::Client (0.5.3 src/client.rs): `conn_mut(func)` sends `func` to the
/// connection thread, runs it ONCE on the `&mut Connection` and hands its result back
/// (`Error::Rusqlite(e)` for `Err(e)`); when the channel is closed `func` does not run.
/// `conn_and_then` is the same with `&Connection` and the closure's own error type.
#[verifier::external_body]
pub struct Client { _p: () }
impl Client {
    #[verifier::external_body]
    pub fn conn_mut<F, T>(&self, db: &mut Connection, func: F) -> (r: core::result::Result<T, AsyncSqliteError>)
        where F: FnOnce(&mut Connection) -> core::result::Result<T, SqlError>,
        requires func.requires((old(db),)),
        ensures
            r matches Ok(t) ==> func.ensures((old(db),), Ok(t)),
            r is Err ==> final(db)@ == old(db)@ || exists|e: SqlError| #![auto] func.ensures((old(db),), Err(e)),
    { unimplemented!() }
    #[verifier::external_body]
    pub fn conn_and_then<F, T, E2>(&self, db: &Connection, func: F) -> (r: core::result::Result<T, E2>)
        where F: FnOnce(&Connection) -> core::result::Result<T, E2>,
        requires func.requires((db,)),
        ensures r matches Ok(t) ==> func.ensures((db,), Ok(t)),
    { unimplemented!() }
}

// ---- EventEntity: PINNED SQL ---------------------------------------------------------
/// crates/database/src/entity/event.rs `EventEntity<'conn, C>`.  `new(&c)` remembers the
/// state the handle sees (reads); R19: the functions that write are handed the
/// transaction (`tx`) whose working state they change, as FIRST argument (the threading
/// rewrite `events.f($args)` -> `events.f(&mut tx, $args)` then quotes no argument).
pub struct EventEntity { pub snap: Ghost<DbV> }
impl EventEntity {
    #[verifier::external_body]
    pub fn new<C: HasDb>(conn: &C) -> (r: EventEntity)
        ensures r.snap@ == conn.dbs(),
    { unimplemented!() }

    /// pinned SQL (event.rs `delete_one`):
    ///   "DELETE FROM <table> WHERE commit_hash = ?1"        bound: [commit_hash]
    /// <table> = `EventTable::from(log_type).as_str()`.  The WHERE clause names NO owner
    /// column: every row of the table with that hash is deleted.
    #[verifier::external_body]
    pub fn delete_one(&self, tx: &mut Transaction, log_type: EventLogType, commit_hash: &CommitHash) -> (r: core::result::Result<(), SqlError>)
        ensures r is Ok ==> final(tx).cur() == sql_delete_commit(old(tx).cur(), tbl_of(log_type), commit_hash.0@),
    { unimplemented!() }

    /// pinned SQL (event.rs `insert_events` + `create_events`):
    ///   "INSERT INTO <table> (<id_column>, created_at, commit_hash, event) VALUES (?1, ?2, ?3, ?4)"
    /// executed once per element of `events`, in order, bound: (id, created_at,
    /// commit_hash, event_bytes).  `event_id INTEGER PRIMARY KEY NOT NULL` is the rowid
    /// alias (V1__base.sql): each new row gets an id above every id in the table, so the
    /// new rows follow all present rows in `ORDER BY event_id ASC`.
    #[verifier::external_body]
    pub fn insert_events(&self, tx: &mut Transaction, log_type: EventLogType, account_or_folder_id: i64, events: &[EventRecordRow]) -> (r: core::result::Result<Vec<i64>, SqlError>)
        ensures r is Ok ==> final(tx).cur() == sql_insert(old(tx).cur(), tbl_of(log_type), account_or_folder_id as int, rowvs(events@)),
    { unimplemented!() }

    /// event.rs `insert_account_events` / `insert_folder_events` / `insert_device_events` /
    /// `insert_file_events`: `self.insert_events(<fixed log type>, id, events)` with
    /// EventLogType::Account / ::Identity (sic, event.rs:261) / ::Device / ::Files
    #[verifier::external_body]
    pub fn insert_account_events(&self, tx: &mut Transaction, account_id: i64, events: &[EventRecordRow]) -> (r: core::result::Result<Vec<i64>, SqlError>)
        ensures r is Ok ==> final(tx).cur() == sql_insert(old(tx).cur(), tbl_of(EventLogType::Account), account_id as int, rowvs(events@)),
    { unimplemented!() }
    #[verifier::external_body]
    pub fn insert_folder_events(&self, tx: &mut Transaction, folder_id: i64, events: &[EventRecordRow]) -> (r: core::result::Result<Vec<i64>, SqlError>)
        ensures r is Ok ==> final(tx).cur() == sql_insert(old(tx).cur(), tbl_of(EventLogType::Identity), folder_id as int, rowvs(events@)),
    { unimplemented!() }
    #[verifier::external_body]
    pub fn insert_device_events(&self, tx: &mut Transaction, account_id: i64, events: &[EventRecordRow]) -> (r: core::result::Result<Vec<i64>, SqlError>)
        ensures r is Ok ==> final(tx).cur() == sql_insert(old(tx).cur(), tbl_of(EventLogType::Device), account_id as int, rowvs(events@)),
    { unimplemented!() }
    #[verifier::external_body]
    pub fn insert_file_events(&self, tx: &mut Transaction, account_id: i64, events: &[EventRecordRow]) -> (r: core::result::Result<Vec<i64>, SqlError>)
        ensures r is Ok ==> final(tx).cur() == sql_insert(old(tx).cur(), tbl_of(EventLogType::Files), account_id as int, rowvs(events@)),
    { unimplemented!() }

    /// pinned SQL (event.rs `delete_all_events`):
    ///   "DELETE FROM <table> WHERE <id_column>=?1"            bound: [account_or_folder_id]
    #[verifier::external_body]
    pub fn delete_all_events(&self, tx: &mut Transaction, log_type: EventLogType, account_or_folder_id: i64) -> (r: core::result::Result<usize, SqlError>)
        ensures r is Ok ==> final(tx).cur() == sql_delete_owner(old(tx).cur(), tbl_of(log_type), account_or_folder_id as int),
    { unimplemented!() }

    /// pinned SQL (event.rs `load_commits`):
    ///   "SELECT event_id, commit_hash FROM <table> WHERE <id_column>=?1 ORDER BY event_id ASC"
    /// one `CommitRow { row_id, commit_hash }` per row, in that order
    #[verifier::external_body]
    pub fn load_commits(&self, log_type: EventLogType, account_or_folder_id: i64) -> (r: core::result::Result<Vec<CommitRow>, Error>)
        ensures r matches Ok(v) ==> v@.len() == own(self.snap@, tbl_of(log_type), account_or_folder_id as int).len()
            && forall|i: int| 0 <= i < v@.len() ==> (#[trigger] v@[i]).commit_hash@ == own(self.snap@, tbl_of(log_type), account_or_folder_id as int)[i].commit,
    { unimplemented!() }
}
pub open spec fn rowvs(s: Seq<EventRecordRow>) -> Seq<RowV> { Seq::new(s.len(), |i: int| s[i].rowv()) }

// ---- the row stream --------------------------------------------------------------------
/// `BoxStream<'_, Result<EventRecord, E>>` after `pin_mut!` (R8): `items()` is everything
/// the stream will yield, `pos()` how much has been taken
#[verifier::external_body]
#[verifier::reject_recursive_types(E)]
pub struct RecordStream<E> { _p: core::marker::PhantomData<E> }
impl<E> RecordStream<E> {
    pub uninterp spec fn items(&self) -> Seq<core::result::Result<EventRecord, E>>;
    pub uninterp spec fn pos(&self) -> nat;
    /// `StreamExt::next().await`
    #[verifier::external_body]
    pub fn next(&mut self) -> (r: Option<core::result::Result<EventRecord, E>>)
        ensures
            final(self).items() == old(self).items(),
            old(self).pos() < old(self).items().len() ==>
                r == Some(old(self).items()[old(self).pos() as int]) && final(self).pos() == old(self).pos() + 1,
            old(self).pos() >= old(self).items().len() ==> r is None && final(self).pos() == old(self).pos(),
    { unimplemented!() }
}
/// what `record_stream(reverse)` yields over the owner's rows `rows` (in event_id
/// order): one `Ok(record)` per row in the requested order, the record read back from
/// the row (`rec_of`).  The producer task stops at the first row that does not convert
/// (`row?` / `row.try_into()?` inside the spawned task: the error is DROPPED with the
/// task and the channel closes), so the stream may end early — it is complete when every
/// row converts (`rows_ok`).  No `Err` item is ever sent (`inner_tx.send(Ok(record))`).
pub open spec fn stream_of<E>(items: Seq<core::result::Result<EventRecord, E>>, rows: Seq<DbRow>, reverse: bool) -> bool {
    &&& items.len() <= rows.len()
    &&& (rows_ok(rows) ==> items.len() == rows.len())
    &&& forall|i: int| 0 <= i < items.len() ==> (#[trigger] items[i]) is Ok
            && (items[i]->Ok_0)@ == rec_of(rows[if reverse { rows.len() - 1 - i } else { i }])
}

// ---- small value types --------------------------------------------------------------------
/// sos_core::AccountId (crates/core/src/account.rs:14): 20 opaque bytes, Copy
#[derive(Clone, Copy)]
pub struct AccountId(pub [u8; 20]);
/// crates/database/src/entity/folder.rs `FolderRecord`: only `row_id` is read by the
/// code under contract (`impl From<&EventLogOwner> for i64`); `summary` (used by
/// `version()`, not extracted) is dropped
#[derive(Clone)]
pub struct FolderRecord { pub row_id: i64 }

/// `sos_core::events::changes_feed()` (crates/core/src/events/change.rs:39): a
/// process-wide `tokio::sync::watch::Sender<LocalChangeEvent>`; `send_replace`
/// stores the value for subscribers.  No effect on any log or table.
#[verifier::external_body]
pub struct ChangesFeed { _p: () }
#[verifier::external_body]
pub fn changes_feed() -> (r: ChangesFeed) { unimplemented!() }
impl ChangesFeed {
    #[verifier::external_body]
    pub fn send_replace(&self, value: LocalChangeEvent) { unimplemented!() }
}

// ---- time text ---------------------------------------------------------------------------------
impl UtcDateTime {
    /// crates/core/src/date_time.rs `now` = `OffsetDateTime::now_utc()`: the clock — any instant
    #[verifier::external_body]
    pub fn now() -> (r: UtcDateTime) { unimplemented!() }
    /// crates/core/src/date_time.rs `to_rfc3339` = `OffsetDateTime::format(&Rfc3339)`
    /// (time 0.3: full sub-second precision, "Z" for UTC; `Err` for years outside
    /// 0..=9999).  ASSUMED: the text parses back to the same instant.
    #[verifier::external_body]
    pub fn to_rfc3339(&self) -> (r: CoreResult<String>)
        ensures r matches Ok(s) ==> parse_time(s@) == Some(self.0@),
    { unimplemented!() }
    /// crates/core/src/date_time.rs `parse_rfc3339` = `OffsetDateTime::parse(value, &Rfc3339)`
    #[verifier::external_body]
    pub fn parse_rfc3339(value: &str) -> (r: CoreResult<UtcDateTime>)
        ensures
            r is Ok <==> parse_time(value@) is Some,
            r matches Ok(t) ==> Some(t.0@) == parse_time(value@),
    { unimplemented!() }
}

// ---- commit tree: one more stand-in (the others are in prelude/log_tree.rs) ------------------
impl CommitTree {
    /// tree.vrs [insert_pushes_pending] [insert_keeps_tree_inv]; the returned `&mut Self`
    /// is discarded at the call site of this unit
    #[verifier::external_body]
    pub fn insert(&mut self, hash: TreeHash)
        ensures
            final(self).pending() == old(self).pending().push(hash@) && final(self).lv() == old(self).lv()
                && final(self).history() == old(self).history() && final(self).last_v() == old(self).last_v(),
            old(self).inv() ==> final(self).inv(),
    { unimplemented!() }
}

// ---- std helpers (R12: exact std meaning) -----------------------------------------------------
/// R12: `$xs.iter().map(|x| $f).collect::<Vec<_>>()` on a `Vec`: `f` applied to every element, in
/// order (verified, not assumed).  The closure `$f` stays extracted code; the rewrite gives it
/// a parameter type and an `ensures` that Verus checks against the real body.
pub fn vmap_iter<A, B, F: Fn(&A) -> B>(f: F, xs: &Vec<A>) -> (r: Vec<B>)
    requires forall|a: &A| call_requires(f, (a,)),
    ensures r@.len() == xs@.len(), forall|i: int| 0 <= i < xs@.len() ==> call_ensures(f, (&xs@[i],), #[trigger] r@[i]),
{
    let mut out: Vec<B> = Vec::new();
    let mut i: usize = 0;
    while i < xs.len()
        invariant i <= xs@.len(), out@.len() == i, forall|a: &A| call_requires(f, (a,)),
            forall|j: int| 0 <= j < i ==> call_ensures(f, (&xs@[j],), #[trigger] out@[j]),
        decreases xs@.len() - i,
    {
        out.push(f(&xs[i]));
        i += 1;
    }
    out
}
/// R12: `$s.to_vec()` on `&[EventRecord]` (alloc::slice::to_vec: clones every element; `#[derive(Clone)]`)
#[verifier::external_body]
pub fn vto_vec_records(s: &[EventRecord]) -> (r: Vec<EventRecord>)
    ensures r@.len() == s@.len(), forall|i: int| 0 <= i < s@.len() ==> (#[trigger] r@[i])@ == s@[i]@,
{ unimplemented!() }
/// R12: `$s.to_vec()` on `&[u8]` / `&[u8; 32]`
#[verifier::external_body]
pub fn vbytes_to_vec(s: &[u8]) -> (r: Vec<u8>)
    ensures r@ == s@,
{ s.to_vec() }
#[verifier::external_body]
pub fn varr_to_vec(s: &[u8; 32]) -> (r: Vec<u8>)
    ensures r@ == s@,
{ s.to_vec() }
/// R12: `$v.reverse()` on `Vec<EventRecord>` (core::slice::reverse): the same elements in the opposite order
#[verifier::external_body]
pub fn vreverse_records(v: &mut Vec<EventRecord>)
    ensures final(v)@.len() == old(v)@.len(), forall|i: int| 0 <= i < old(v)@.len() ==> #[trigger] final(v)@[i] == old(v)@[old(v)@.len() - 1 - i],
{ v.reverse() }
/// R12: `$o.unwrap_or_default()` on `Option<Vec<TreeHash>>`
pub fn vunwrap_or_default(o: Option<Vec<TreeHash>>) -> (r: Vec<TreeHash>)
    ensures r@ == (match o { Some(v) => v@, None => Seq::<TreeHash>::empty() }),
{
    match o { Some(v) => v, None => Vec::new() }
}
/// R12: `$v.truncate($n)` on `Vec<TreeHash>` (alloc: keeps the first n elements, no-op when n >= len)
#[verifier::external_body]
pub fn vtruncate(v: &mut Vec<TreeHash>, n: usize)
    ensures final(v)@ == (if n <= old(v)@.len() { old(v)@.take(n as int) } else { old(v)@ }),
{ v.truncate(n) }

// ---- record_stream: PINNED SQL, not under contract --------------------------------------------
impl<T, E> DatabaseEventLog<T, E>
where
    T: Default + Encodable + Decodable + Send + Sync,
    E: std::error::Error + std::fmt::Debug + From<sos_core::Error> + From<Error> + From<std::io::Error> + Send + Sync + 'static,
{
    /// crates/database/src/event_log.rs `record_stream` — LEFT OUT of the code under
    /// contract (tokio::spawn + mpsc channel + `futures::executor::block_on` + raw
    /// `rusqlite::Statement::query_and_then`); this is its ASSUMED contract, read off
    /// pinned SQL (event.rs `find_all_query`):
    ///   "SELECT event_id, created_at, commit_hash, event FROM <table> WHERE <id_column>=?1 ORDER BY event_id DESC"   (reverse)
    ///   "SELECT event_id, created_at, commit_hash, event FROM <table> WHERE <id_column>=?1 ORDER BY event_id ASC"    (forward)
    /// bound: [owner id]; each row -> `EventRecordRow` -> `EventRecord` (`try_into`, under
    /// contract in this unit: [row_to_record_keeps_fields]).  R19: `db` threaded.
    #[verifier::external_body]
    pub fn record_stream(&self, reverse: bool, db: &Connection) -> (r: RecordStream<E>)
        ensures
            r.pos() == 0,
            stream_of(r.items(), own(db@, tbl_of(self.lt()), self.oid()), reverse),
    { unimplemented!() }
}
