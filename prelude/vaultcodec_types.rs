// ===========================================================================
// prelude/vaultcodec_types.rs — dependency stand-ins of the unit `vaultcodec`
// (crates/vault/src/encoding/vault.rs).  Included inside `mod pre`.  Every
// `external_body` / `axiom` / `uninterp` here is an ASSUMPTION.
// ===========================================================================

/// view of `uuid::Uuid` (struct in prelude/types.rs): its 16 bytes
impl View for Uuid {
    type V = Seq<u8>;
    open spec fn view(&self) -> Seq<u8> { self.0@ }
}

// ---- ordered map semantics over a sequence of (key, value) -------------------
pub open spec fn m_has<K, V>(s: Seq<(K, V)>, k: K) -> bool {
    exists|i: int| 0 <= i < s.len() && (#[trigger] s[i]).0 == k
}
pub open spec fn m_idx<K, V>(s: Seq<(K, V)>, k: K) -> int {
    choose|i: int| 0 <= i < s.len() && (#[trigger] s[i]).0 == k
}
/// insert-or-replace keeping the position of an existing key, new keys last
pub open spec fn m_insert<K, V>(s: Seq<(K, V)>, k: K, v: V) -> Seq<(K, V)> {
    if m_has(s, k) { s.update(m_idx(s, k), (k, v)) } else { s.push((k, v)) }
}
pub open spec fn m_distinct<K, V>(s: Seq<(K, V)>) -> bool {
    forall|i: int, j: int| 0 <= i < j < s.len() ==> (#[trigger] s[i]).0 != (#[trigger] s[j]).0
}

/// indexmap-2.12.0 `IndexMap<K, V, RandomState>` (src/map.rs, src/map/core.rs,
/// src/map/iter.rs; the version /repo/Cargo.lock pins for sos-vault).  View:
/// the entries in iteration order as (key view, value view).  Assumed of K:
/// `Eq + Hash` agree with equality of the key's view (the one key type used
/// is `Uuid`, derived Eq/Hash on `[u8; 16]`).
#[verifier::external_body]
#[verifier::reject_recursive_types(K)]
#[verifier::reject_recursive_types(V)]
pub struct IndexMap<K, V> { _p: core::marker::PhantomData<(K, V)> }

impl<K: View, V: View> View for IndexMap<K, V> {
    type V = Seq<(K::V, V::V)>;
    uninterp spec fn view(&self) -> Seq<(K::V, V::V)>;
}

/// structural invariant of IndexMap: one entry per key
pub broadcast axiom fn axiom_indexmap_distinct<K: View, V: View>(m: IndexMap<K, V>)
    ensures m_distinct(#[trigger] m@);

impl<K: View, V: View> Default for IndexMap<K, V> {
    /// map.rs `impl Default`: the empty map
    #[verifier::external_body]
    fn default() -> (r: Self)
        ensures r@.len() == 0,
    { unimplemented!() }
}

pub open spec fn m_get<K, V>(s: Seq<(K, V)>, k: K) -> Option<V> {
    if m_has(s, k) { Some(s[m_idx(s, k)].1) } else { None }
}
impl<K: View, V: View> IndexMap<K, V> {
    /// map.rs `new`: the empty map
    #[verifier::external_body]
    pub fn new() -> (r: Self)
        ensures r@.len() == 0,
    { unimplemented!() }
    /// map.rs `len`: number of entries
    #[verifier::external_body]
    pub fn len(&self) -> (r: usize)
        ensures r == self@.len(),
    { unimplemented!() }
    /// map.rs `is_empty`
    #[verifier::external_body]
    pub fn is_empty(&self) -> (r: bool)
        ensures r == (self@.len() == 0),
    { unimplemented!() }
    /// map.rs `contains_key`
    #[verifier::external_body]
    pub fn contains_key(&self, key: &K) -> (r: bool)
        ensures r == m_has(self@, key@),
    { unimplemented!() }
    /// map.rs:834 `get`: "Return a reference to the stored value for key, if it is present, else None."
    #[verifier::external_body]
    pub fn get(&self, key: &K) -> (r: Option<&V>)
        ensures r is Some <==> m_has(self@, key@), r is Some ==> Some(r->Some_0@) == m_get(self@, key@),
    { unimplemented!() }
    /// map.rs:446 `insert` -> core.rs `insert_full`: "If an equivalent key
    /// already exists in the map: the key remains and retains in its place in
    /// the order, its corresponding value is updated with `value`, and the
    /// older value is returned inside `Some(_)`.  If no equivalent key existed
    /// in the map: the new key-value pair is inserted, last in order, and
    /// `None` is returned."
    #[verifier::external_body]
    pub fn insert(&mut self, key: K, value: V) -> (r: Option<V>)
        ensures
            final(self)@ == m_insert(old(self)@, key@, value@),
            r is Some <==> m_has(old(self)@, key@),
    { unimplemented!() }
}

/// views of a sequence of borrowed (key, value) pairs
pub open spec fn kv_ref_views<'a, K: View, V: View>(s: Seq<(&'a K, &'a V)>) -> Seq<(K::V, V::V)> {
    Seq::new(s.len(), |i: int| ((*s[i].0)@, (*s[i].1)@))
}

/// `indexmap::map::Iter<'a, K, V>` (map/iter.rs:41): a `slice::Iter` over the
/// entry vector mapped with `Bucket::refs`: every entry once, in order.
#[verifier::external_body]
#[verifier::reject_recursive_types(K)]
#[verifier::reject_recursive_types(V)]
pub struct IndexMapIter<'a, K, V> { _p: core::marker::PhantomData<&'a (K, V)> }

impl<'a, K, V> IndexMapIter<'a, K, V> {
    /// entries not yet yielded
    pub uninterp spec fn rest(&self) -> Seq<(&'a K, &'a V)>;
}
impl<'a, K, V> Iterator for IndexMapIter<'a, K, V> {
    type Item = (&'a K, &'a V);
    /// contract inherited from vstd's Iterator specification (`IteratorSpecImpl`
    /// below): yields `rest()[0]` and drops it, `None` when `rest()` is empty
    #[verifier::external_body]
    fn next(&mut self) -> (r: Option<(&'a K, &'a V)>)
    { unimplemented!() }
}
impl<'a, K, V> vstd::std_specs::iter::IteratorSpecImpl for IndexMapIter<'a, K, V> {
    open spec fn obeys_prophetic_iter_laws(&self) -> bool { true }
    #[verifier::prophetic]
    open spec fn remaining(&self) -> Seq<(&'a K, &'a V)> { self.rest() }
    #[verifier::prophetic]
    open spec fn will_return_none(&self) -> bool { true }
    open spec fn decrease(&self) -> Option<nat> { Some(self.rest().len()) }
    open spec fn peek(&self, i: int) -> Option<(&'a K, &'a V)> {
        if 0 <= i < self.rest().len() { Some(self.rest()[i]) } else { None }
    }
}
impl<'a, K: View, V: View> IntoIterator for &'a IndexMap<K, V> {
    type Item = (&'a K, &'a V);
    type IntoIter = IndexMapIter<'a, K, V>;
    /// map/iter.rs:10 `impl IntoIterator for &IndexMap`: `self.iter()`
    #[verifier::external_body]
    fn into_iter(self) -> (r: IndexMapIter<'a, K, V>)
        ensures kv_ref_views(r.rest()) == self@,
    { unimplemented!() }
}

// ---- errors that are only constructed -----------------------------------------
/// `sos_vault::Error` (crates/vault/src/error.rs, a thiserror enum): the
/// variants constructed by the extracted code.
#[derive(Debug)]
pub enum VaultError {
    InvalidVaultFlags,
    UnknownSharedAccessKind(u8),
    InvalidX25519Identity(String),
}

// ---- age::x25519::Recipient ---------------------------------------------------
/// age-0.11.1 src/x25519.rs `Recipient` and `impl FromStr for Recipient`
/// (`type Err = &'static str`; Bech32 with HRP "age" and a 32 byte key).
/// Which strings parse is an UNINTERPRETED predicate; the parsed value is
/// dropped by the caller.
pub struct Recipient { pub _p: () }
pub uninterp spec fn is_recipient(s: Seq<char>) -> bool;
/// ASSUMED TYPE INVARIANT of `SharedAccess::WriteAccess(Vec<String>)` (crates/vault/src/vault.rs): every
/// string is an age x25519 recipient.  Grounds: the one place the repository builds the list
/// (vault.rs `Vault::asymmetric`) maps `age::x25519::Recipient::to_string()` over parsed recipients
/// (plus the age assumption that `to_string` output parses back).  NOT enforced by the type: the
/// field is a plain Vec<String> and serde `Deserialize` accepts any strings; for such a value
/// `encode` succeeds and `decode` of its output fails (replayed: WriteAccess(["x"])).
pub open spec fn recipients_inv(r: Seq<Seq<char>>) -> bool {
    forall|i: int| 0 <= i < r.len() ==> is_recipient(#[trigger] r[i])
}
/// R12: `$s.parse()` with target `age::x25519::Recipient` (str::parse = FromStr::from_str)
#[verifier::external_body]
pub fn parse_recipient(s: &String) -> (r: core::result::Result<Recipient, &'static str>)
    ensures r.is_ok() <==> is_recipient(s@),
{ unimplemented!() }

/// `str::to_owned` (alloc): the same characters
#[verifier::external_body]
pub fn str_to_owned(s: &str) -> (r: String)
    ensures r@ == s@,
{ s.to_owned() }

// ---- tokio ---------------------------------------------------------------------
/// tokio::io::AsyncReadExt: `impl<R: AsyncRead + ?Sized> AsyncReadExt for R {}`
/// (tokio-1.x src/io/util/async_read_ext.rs); a bound only.
pub trait AsyncReadExt {}
impl<R: AsyncRead> AsyncReadExt for R {}

// ---- slice::iter().enumerate() --------------------------------------------------
/// R12: `$s.iter().enumerate()` on a byte slice (core::iter::Enumerate over
/// core::slice::Iter): yields (0, &s[0]), (1, &s[1]), ... in order.
#[verifier::external_body]
pub struct SliceEnumerate<'a> { _p: core::marker::PhantomData<&'a u8> }
impl<'a> SliceEnumerate<'a> {
    pub uninterp spec fn rest(&self) -> Seq<(usize, &'a u8)>;
}
impl<'a> Iterator for SliceEnumerate<'a> {
    type Item = (usize, &'a u8);
    #[verifier::external_body]
    fn next(&mut self) -> (r: Option<(usize, &'a u8)>)
    { unimplemented!() }
}
impl<'a> vstd::std_specs::iter::IteratorSpecImpl for SliceEnumerate<'a> {
    open spec fn obeys_prophetic_iter_laws(&self) -> bool { true }
    #[verifier::prophetic]
    open spec fn remaining(&self) -> Seq<(usize, &'a u8)> { self.rest() }
    #[verifier::prophetic]
    open spec fn will_return_none(&self) -> bool { true }
    open spec fn decrease(&self) -> Option<nat> { Some(self.rest().len()) }
    open spec fn peek(&self, i: int) -> Option<(usize, &'a u8)> {
        if 0 <= i < self.rest().len() { Some(self.rest()[i]) } else { None }
    }
}
#[verifier::external_body]
pub fn slice_enumerate<'a>(s: &'a [u8]) -> (r: SliceEnumerate<'a>)
    ensures
        r.rest().len() == s@.len(),
        forall|i: int| 0 <= i < s@.len() ==> (#[trigger] r.rest()[i]).0 == i && *r.rest()[i].1 == s@[i],
{ unimplemented!() }

// ---- core::str::from_utf8 ---------------------------------------------------------
#[derive(Debug)]
pub struct Utf8Error { pub _p: () }
/// R12: `std::str::from_utf8($b)`: Ok exactly for well-formed UTF-8 (the
/// `utf8_dec` of prelude/base.rs)
#[verifier::external_body]
pub fn str_from_utf8<'a>(b: &'a [u8]) -> (r: core::result::Result<&'a str, Utf8Error>)
    ensures r.is_ok() <==> utf8_dec(b@).is_some(), r.is_ok() ==> Some(r.unwrap()@) == utf8_dec(b@),
{ unimplemented!() }
/// Assumption ASCII: a byte string of 7-bit values is well-formed UTF-8
/// (Unicode 15 table 3-7, first row).
pub axiom fn axiom_ascii_is_utf8(b: Seq<u8>)
    requires forall|i: int| 0 <= i < b.len() ==> b[i] < 128,
    ensures utf8_dec(b).is_some();
