// ===========================================================================
// prelude/dblog_spec.rs — SPECIFICATION vocabulary of unit `dblog` (database
// event log, C06 / C07 / C08).  Pure spec text and PROVED lemmas only: no
// assumption lives in this file.  Included at top level (it talks about the
// extracted `EventRecord`, `EventLogType`).
//
// The abstract log is the one of the file-system unit (units/log.vrs):
// `Log = Seq<Rec>`, the rows in append order.  A row of the abstract log is
// (time, commit, event bytes) — `last_commit` is not a column of the tables
// (V1__base.sql) and is read back as the all-zero default
// (`impl TryFrom<EventRecordRow> for EventRecord`), exactly as in
// prelude/merge_spec.rs.
// ===========================================================================

pub ghost struct Rec { pub time: Instant, pub commit: Seq<u8>, pub event: Seq<u8> }
pub type Log = Seq<Rec>;

impl View for EventRecord {
    type V = Rec;
    open spec fn view(&self) -> Rec { Rec { time: self.0.0@, commit: self.2.0@, event: self.3@ } }
}
pub open spec fn rv(v: Seq<EventRecord>) -> Log { Seq::new(v.len(), |i: int| v[i]@) }
pub open spec fn commits_of(l: Log) -> Seq<Seq<u8>> { Seq::new(l.len(), |i: int| l[i].commit) }

// ---- the ghost relation -----------------------------------------------------------
/// the four event tables of crates/database/sql_migrations/V1__base.sql
pub ghost enum Tbl { AccountEvents, FolderEvents, DeviceEvents, FileEvents }
/// `impl From<EventLogType> for EventTable` (crates/database/src/entity/event.rs:36)
pub open spec fn tbl_of(t: EventLogType) -> Tbl {
    match t {
        EventLogType::Account => Tbl::AccountEvents,
        EventLogType::Identity => Tbl::FolderEvents,
        EventLogType::Device => Tbl::DeviceEvents,
        EventLogType::Files => Tbl::FileEvents,
        EventLogType::Folder(_) => Tbl::FolderEvents,
    }
}
/// one row of an event table: (table, owner id column `account_id`/`folder_id`,
/// created_at TEXT, commit_hash BLOB, event BLOB).  `event_id` (INTEGER PRIMARY
/// KEY = rowid alias) is the POSITION in the relation: a row inserted later has
/// a larger event_id than every row present in its table.
pub ghost struct DbRow { pub tbl: Tbl, pub owner: int, pub created_at: Seq<char>, pub commit: Seq<u8>, pub event: Seq<u8> }
/// the ghost relation: all event rows, rows of one table in event_id order
pub type DbV = Seq<DbRow>;
/// the three value columns an INSERT supplies
pub ghost struct RowV { pub created_at: Seq<char>, pub commit: Seq<u8>, pub event: Seq<u8> }

/// RFC 3339 text -> instant (`UtcDateTime::parse_rfc3339`), uninterpreted
pub uninterp spec fn parse_time(s: Seq<char>) -> Option<Instant>;

pub open spec fn is_own(r: DbRow, t: Tbl, o: int) -> bool { r.tbl == t && r.owner == o }
/// `... FROM <t> WHERE <id_column>=?1 ORDER BY event_id ASC`
pub open spec fn own(db: DbV, t: Tbl, o: int) -> Seq<DbRow>
    decreases db.len(),
{
    if db.len() == 0 { Seq::empty() } else {
        let p = own(db.drop_last(), t, o);
        if is_own(db.last(), t, o) { p.push(db.last()) } else { p }
    }
}
/// `DELETE FROM <t> WHERE <id_column>=?1`
pub open spec fn sql_delete_owner(db: DbV, t: Tbl, o: int) -> DbV
    decreases db.len(),
{
    if db.len() == 0 { Seq::empty() } else {
        let p = sql_delete_owner(db.drop_last(), t, o);
        if is_own(db.last(), t, o) { p } else { p.push(db.last()) }
    }
}
/// `DELETE FROM <t> WHERE commit_hash = ?1`  (NO owner column in the WHERE clause)
pub open spec fn sql_delete_commit(db: DbV, t: Tbl, c: Seq<u8>) -> DbV
    decreases db.len(),
{
    if db.len() == 0 { Seq::empty() } else {
        let p = sql_delete_commit(db.drop_last(), t, c);
        if db.last().tbl == t && db.last().commit == c { p } else { p.push(db.last()) }
    }
}
/// the `delete_one` calls of `rewind` taken together: every row of table `t` whose hash is
/// one of `cs` is gone, WHOEVER owns it (proved equal to the calls one after the other: lemma_drop_step)
pub open spec fn db_drop(db: Seq<DbRow>, t: Tbl, cs: Seq<Seq<u8>>) -> Seq<DbRow>
    decreases db.len(),
{
    if db.len() == 0 { Seq::empty() } else {
        let p = db_drop(db.drop_last(), t, cs);
        if db.last().tbl == t && cs.contains(db.last().commit) { p } else { p.push(db.last()) }
    }
}
pub open spec fn new_rows(t: Tbl, o: int, rows: Seq<RowV>) -> Seq<DbRow> {
    Seq::new(rows.len(), |i: int| DbRow { tbl: t, owner: o, created_at: rows[i].created_at, commit: rows[i].commit, event: rows[i].event })
}
/// `INSERT INTO <t> (<id_column>, created_at, commit_hash, event) VALUES (?1, ?2, ?3, ?4)`, once per row, in order
pub open spec fn sql_insert(db: DbV, t: Tbl, o: int, rows: Seq<RowV>) -> DbV { db + new_rows(t, o, rows) }

/// what a stored row reads back as
pub open spec fn rec_of(r: DbRow) -> Rec { Rec { time: parse_time(r.created_at)->Some_0, commit: r.commit, event: r.event } }
pub open spec fn recs_of(s: Seq<DbRow>) -> Log { Seq::new(s.len(), |i: int| rec_of(s[i])) }
/// a row converts back into an EventRecord (time text parses, hash has 32 bytes)
pub open spec fn row_ok(r: DbRow) -> bool { parse_time(r.created_at) is Some && r.commit.len() == 32 }
pub open spec fn rows_ok(s: Seq<DbRow>) -> bool { forall|i: int| 0 <= i < s.len() ==> row_ok(#[trigger] s[i]) }
/// THE log the relation holds for (table, owner)
pub open spec fn log_of(db: DbV, t: Tbl, o: int) -> Log { recs_of(own(db, t, o)) }

// ---- lemmas on the relation -----------------------------------------------------------
pub proof fn lemma_own_concat(a: DbV, b: DbV, t: Tbl, o: int)
    ensures own(a + b, t, o) == own(a, t, o) + own(b, t, o),
    decreases b.len(),
{
    if b.len() == 0 {
        assert(a + b =~= a);
        assert(own(a, t, o) + own(b, t, o) =~= own(a, t, o));
    } else {
        assert((a + b).drop_last() =~= a + b.drop_last());
        assert((a + b).last() == b.last());
        lemma_own_concat(a, b.drop_last(), t, o);
        let p = own(b.drop_last(), t, o);
        if is_own(b.last(), t, o) {
            assert((own(a, t, o) + p).push(b.last()) =~= own(a, t, o) + p.push(b.last()));
        }
    }
}
pub proof fn lemma_own_all(s: Seq<DbRow>, t: Tbl, o: int)
    requires forall|i: int| 0 <= i < s.len() ==> is_own(#[trigger] s[i], t, o),
    ensures own(s, t, o) == s,
    decreases s.len(),
{
    if s.len() > 0 {
        let d = s.drop_last();
        assert forall|i: int| 0 <= i < d.len() implies is_own(#[trigger] d[i], t, o) by { assert(d[i] == s[i]); }
        lemma_own_all(d, t, o);
        assert(is_own(s[s.len() - 1], t, o));
        assert(d.push(s.last()) =~= s);
    } else {
        assert(s =~= Seq::<DbRow>::empty());
    }
}
pub proof fn lemma_own_none(s: Seq<DbRow>, t: Tbl, o: int)
    requires forall|i: int| 0 <= i < s.len() ==> !is_own(#[trigger] s[i], t, o),
    ensures own(s, t, o) == Seq::<DbRow>::empty(),
    decreases s.len(),
{
    if s.len() > 0 {
        let d = s.drop_last();
        assert forall|i: int| 0 <= i < d.len() implies !is_own(#[trigger] d[i], t, o) by { assert(d[i] == s[i]); }
        lemma_own_none(d, t, o);
        assert(!is_own(s[s.len() - 1], t, o));
    }
}
/// INSERT: the owner's rows gain the new rows at the end, every other owner's rows stay
pub proof fn lemma_insert(db: DbV, t: Tbl, o: int, rows: Seq<RowV>, t2: Tbl, o2: int)
    ensures own(sql_insert(db, t, o, rows), t2, o2) == (if t2 == t && o2 == o { own(db, t, o) + new_rows(t, o, rows) } else { own(db, t2, o2) }),
{
    let nr = new_rows(t, o, rows);
    lemma_own_concat(db, nr, t2, o2);
    if t2 == t && o2 == o {
        lemma_own_all(nr, t, o);
    } else {
        lemma_own_none(nr, t2, o2);
        assert(own(db, t2, o2) + Seq::<DbRow>::empty() =~= own(db, t2, o2));
    }
}
/// DELETE ... WHERE owner: the owner's rows are gone, every other owner's rows stay
pub proof fn lemma_delete_owner(db: DbV, t: Tbl, o: int, t2: Tbl, o2: int)
    ensures own(sql_delete_owner(db, t, o), t2, o2) == (if t2 == t && o2 == o { Seq::<DbRow>::empty() } else { own(db, t2, o2) }),
    decreases db.len(),
{
    if db.len() > 0 {
        lemma_delete_owner(db.drop_last(), t, o, t2, o2);
        let p = sql_delete_owner(db.drop_last(), t, o);
        if !is_own(db.last(), t, o) {
            assert(p.push(db.last()).drop_last() =~= p);
            assert(p.push(db.last()).last() == db.last());
        }
    }
}
/// one more `DELETE ... WHERE commit_hash = c` after the hashes `cs` are gone
pub proof fn lemma_drop_step(db: DbV, t: Tbl, cs: Seq<Seq<u8>>, c: Seq<u8>)
    ensures sql_delete_commit(db_drop(db, t, cs), t, c) == db_drop(db, t, cs.push(c)),
    decreases db.len(),
{
    if db.len() > 0 {
        lemma_drop_step(db.drop_last(), t, cs, c);
        let x = db.last();
        let p = db_drop(db.drop_last(), t, cs);
        assert(forall|y: Seq<u8>| #[trigger] cs.push(c).contains(y) <==> cs.contains(y) || y == c) by {
            assert forall|y: Seq<u8>| #[trigger] cs.push(c).contains(y) <==> cs.contains(y) || y == c by {
                if cs.contains(y) { let i = choose|i: int| 0 <= i < cs.len() && cs[i] == y; assert(cs.push(c)[i] == y); }
                if y == c { assert(cs.push(c)[cs.len() as int] == y); }
                if cs.push(c).contains(y) { let i = choose|i: int| 0 <= i < cs.push(c).len() && cs.push(c)[i] == y; if i < cs.len() { assert(cs[i] == y); } }
            }
        }
        if !(x.tbl == t && cs.contains(x.commit)) {
            assert(p.push(x).drop_last() =~= p);
            assert(p.push(x).last() == x);
        }
    }
}
pub proof fn lemma_drop_nothing(db: DbV, t: Tbl)
    ensures db_drop(db, t, Seq::<Seq<u8>>::empty()) == db,
    decreases db.len(),
{
    if db.len() > 0 {
        lemma_drop_nothing(db.drop_last(), t);
        assert(db.drop_last().push(db.last()) =~= db);
    } else {
        assert(db =~= Seq::<DbRow>::empty());
    }
}
/// `own` and `db_drop` commute: what happens to the rows of ANY owner (t2, o2)
pub proof fn lemma_own_drop(db: DbV, t: Tbl, cs: Seq<Seq<u8>>, t2: Tbl, o2: int)
    ensures own(db_drop(db, t, cs), t2, o2) == db_drop(own(db, t2, o2), t, cs),
    decreases db.len(),
{
    if db.len() > 0 {
        lemma_own_drop(db.drop_last(), t, cs, t2, o2);
        let p = db_drop(db.drop_last(), t, cs);
        let q = own(db.drop_last(), t2, o2);
        let x = db.last();
        if !(x.tbl == t && cs.contains(x.commit)) {
            assert(p.push(x).drop_last() =~= p);
            assert(p.push(x).last() == x);
        }
        if is_own(x, t2, o2) {
            assert(q.push(x).drop_last() =~= q);
            assert(q.push(x).last() == x);
        }
    }
}
pub proof fn lemma_drop_concat(a: Seq<DbRow>, b: Seq<DbRow>, t: Tbl, cs: Seq<Seq<u8>>)
    ensures db_drop(a + b, t, cs) == db_drop(a, t, cs) + db_drop(b, t, cs),
    decreases b.len(),
{
    if b.len() == 0 {
        assert(a + b =~= a);
        assert(db_drop(a, t, cs) + db_drop(b, t, cs) =~= db_drop(a, t, cs));
    } else {
        assert((a + b).drop_last() =~= a + b.drop_last());
        assert((a + b).last() == b.last());
        lemma_drop_concat(a, b.drop_last(), t, cs);
        let p = db_drop(b.drop_last(), t, cs);
        if !(b.last().tbl == t && cs.contains(b.last().commit)) {
            assert((db_drop(a, t, cs) + p).push(b.last()) =~= db_drop(a, t, cs) + p.push(b.last()));
        }
    }
}
/// no row is hit: nothing is dropped
pub proof fn lemma_drop_none(s: Seq<DbRow>, t: Tbl, cs: Seq<Seq<u8>>)
    requires forall|i: int| 0 <= i < s.len() ==> !((#[trigger] s[i]).tbl == t && cs.contains(s[i].commit)),
    ensures db_drop(s, t, cs) == s,
    decreases s.len(),
{
    if s.len() > 0 {
        let d = s.drop_last();
        assert forall|i: int| 0 <= i < d.len() implies !((#[trigger] d[i]).tbl == t && cs.contains(d[i].commit)) by { assert(d[i] == s[i]); }
        lemma_drop_none(d, t, cs);
        assert(!(s[s.len() - 1].tbl == t && cs.contains(s[s.len() - 1].commit)));
        assert(d.push(s.last()) =~= s);
    } else {
        assert(s =~= Seq::<DbRow>::empty());
    }
}
/// every row is hit: all are dropped
pub proof fn lemma_drop_all(s: Seq<DbRow>, t: Tbl, cs: Seq<Seq<u8>>)
    requires forall|i: int| 0 <= i < s.len() ==> (#[trigger] s[i]).tbl == t && cs.contains(s[i].commit),
    ensures db_drop(s, t, cs) == Seq::<DbRow>::empty(),
    decreases s.len(),
{
    if s.len() > 0 {
        let d = s.drop_last();
        assert forall|i: int| 0 <= i < d.len() implies (#[trigger] d[i]).tbl == t && cs.contains(d[i].commit) by { assert(d[i] == s[i]); }
        lemma_drop_all(d, t, cs);
        assert(s[s.len() - 1].tbl == t && cs.contains(s[s.len() - 1].commit));
    }
}
pub proof fn lemma_own_rows(db: DbV, t: Tbl, o: int)
    ensures forall|i: int| 0 <= i < own(db, t, o).len() ==> is_own(#[trigger] own(db, t, o)[i], t, o),
    decreases db.len(),
{
    if db.len() > 0 {
        lemma_own_rows(db.drop_last(), t, o);
        let p = own(db.drop_last(), t, o);
        let r = own(db, t, o);
        assert forall|i: int| 0 <= i < r.len() implies is_own(#[trigger] r[i], t, o) by {
            if i < p.len() { assert(r[i] == p[i]); }
        }
    }
}
/// What `rewind`'s deletes do to the relation.  `db1` is `db0` after the hashes `cs` were
/// deleted from table `t`; `cs` are the hashes of the rows behind position `m` of the
/// owner's rows `rws`, newest first.
///  - every owner's rows lose exactly the rows carrying one of the hashes (D5: also OTHER owners);
///  - rows of other tables stay;
///  - if no KEPT row of this log carries a removed hash, this log's rows are the kept prefix.
pub proof fn lemma_rewind_db(db0: DbV, db1: DbV, t: Tbl, o: int, m: int, cs: Seq<Seq<u8>>)
    requires
        db1 == db_drop(db0, t, cs),
        0 <= m <= own(db0, t, o).len(),
        cs.len() == own(db0, t, o).len() - m,
        forall|i: int| 0 <= i < cs.len() ==> #[trigger] cs[i] == own(db0, t, o)[own(db0, t, o).len() - 1 - i].commit,
    ensures
        forall|t2: Tbl, o2: int| #[trigger] own(db1, t2, o2) == db_drop(own(db0, t2, o2), t, cs),
        forall|t2: Tbl, o2: int| t2 != t ==> #[trigger] own(db1, t2, o2) == own(db0, t2, o2),
        (forall|i: int, k: int| 0 <= i < m && m <= k < own(db0, t, o).len() ==> (#[trigger] own(db0, t, o)[i]).commit != (#[trigger] own(db0, t, o)[k]).commit)
            ==> own(db1, t, o) == own(db0, t, o).take(m),
{
    let rws = own(db0, t, o);
    let n = rws.len() as int;
    assert forall|t2: Tbl, o2: int| #[trigger] own(db1, t2, o2) == db_drop(own(db0, t2, o2), t, cs) by { lemma_own_drop(db0, t, cs, t2, o2); }
    assert forall|t2: Tbl, o2: int| t2 != t implies #[trigger] own(db1, t2, o2) == own(db0, t2, o2) by {
        lemma_own_rows(db0, t2, o2);
        lemma_drop_none(own(db0, t2, o2), t, cs);
    }
    if forall|i: int, k: int| 0 <= i < m && m <= k < n ==> (#[trigger] rws[i]).commit != (#[trigger] rws[k]).commit {
        let a = rws.take(m);
        let b = rws.skip(m);
        assert(rws =~= a + b);
        lemma_own_rows(db0, t, o);
        lemma_drop_concat(a, b, t, cs);
        assert forall|i: int| 0 <= i < a.len() implies !((#[trigger] a[i]).tbl == t && cs.contains(a[i].commit)) by {
            if cs.contains(a[i].commit) {
                let j = choose|j: int| 0 <= j < cs.len() && cs[j] == a[i].commit;
                assert(cs[j] == rws[n - 1 - j].commit);
                assert(a[i] == rws[i]);
            }
        }
        lemma_drop_none(a, t, cs);
        assert forall|i: int| 0 <= i < b.len() implies (#[trigger] b[i]).tbl == t && cs.contains(b[i].commit) by {
            assert(b[i] == rws[m + i]);
            assert(is_own(rws[m + i], t, o));
            let j = n - 1 - (m + i);
            assert(cs[j] == rws[n - 1 - j].commit);
        }
        lemma_drop_all(b, t, cs);
        assert(a + Seq::<DbRow>::empty() =~= a);
    }
}

pub proof fn lemma_recs_of_concat(a: Seq<DbRow>, b: Seq<DbRow>)
    ensures recs_of(a + b) == recs_of(a) + recs_of(b),
{
    assert(recs_of(a + b) =~= recs_of(a) + recs_of(b));
}
pub proof fn lemma_rows_ok_concat(a: Seq<DbRow>, b: Seq<DbRow>)
    requires rows_ok(a), rows_ok(b),
    ensures rows_ok(a + b),
{
    assert forall|i: int| 0 <= i < (a + b).len() implies row_ok(#[trigger] (a + b)[i]) by {
        if i < a.len() { assert((a + b)[i] == a[i]); } else { assert((a + b)[i] == b[i - a.len()]); }
    }
}
pub proof fn lemma_commits_of_add(a: Log, b: Log)
    ensures commits_of(a + b) == commits_of(a) + commits_of(b),
{
    assert(commits_of(a + b) =~= commits_of(a) + commits_of(b));
}
pub proof fn lemma_commits_of_take(l: Log, k: int)
    requires 0 <= k <= l.len(),
    ensures commits_of(l.take(k)) == commits_of(l).take(k),
{
    assert(commits_of(l.take(k)) =~= commits_of(l).take(k));
}

// ---- positions in a log (text of units/log.vrs, over `Rec`) --------------------------------
/// index of the LAST record whose commit is `c`, or -1
pub open spec fn last_index_of(l: Log, c: Seq<u8>) -> int
    decreases l.len(),
{
    if l.len() == 0 { -1 } else if l.last().commit == c { l.len() - 1 } else { last_index_of(l.drop_last(), c) }
}
pub proof fn lemma_last_index_of(l: Log, c: Seq<u8>, j: int)
    requires 0 <= j < l.len(), l[j].commit == c, forall|i: int| j < i < l.len() ==> (#[trigger] l[i]).commit != c,
    ensures last_index_of(l, c) == j,
    decreases l.len(),
{
    if j < l.len() - 1 {
        assert(l.last().commit != c);
        let dl = l.drop_last();
        assert forall|i: int| j < i < dl.len() implies (#[trigger] dl[i]).commit != c by { assert(dl[i] == l[i]); }
        lemma_last_index_of(dl, c, j);
    }
}
pub proof fn lemma_last_index_none(l: Log, c: Seq<u8>)
    requires forall|i: int| 0 <= i < l.len() ==> (#[trigger] l[i]).commit != c,
    ensures last_index_of(l, c) == -1,
    decreases l.len(),
{
    if l.len() > 0 {
        let dl = l.drop_last();
        assert forall|i: int| 0 <= i < dl.len() implies (#[trigger] dl[i]).commit != c by { assert(dl[i] == l[i]); }
        lemma_last_index_none(dl, c);
    }
}
/// a sequence read back to front
pub open spec fn newest_first(s: Log) -> Log { Seq::new(s.len(), |i: int| s[s.len() - 1 - i]) }
pub proof fn lemma_rv_push(a: Seq<EventRecord>, x: EventRecord)
    ensures rv(a.push(x)) == rv(a).push(x@),
{
    assert(rv(a.push(x)) =~= rv(a).push(x@));
}
pub proof fn lemma_newest_first_push(r0: Log, l: Log, j: int, x: Rec)
    requires 0 <= j < l.len(), r0 == newest_first(l.skip(j + 1)), x == l[j],
    ensures r0.push(x) == newest_first(l.skip(j)),
{
    assert(r0.push(x) =~= newest_first(l.skip(j)));
}
pub proof fn lemma_reverse_newest_first(a: Seq<EventRecord>, b: Seq<EventRecord>, s: Log)
    requires rv(a) == newest_first(s), b.len() == a.len(), forall|i: int| 0 <= i < a.len() ==> #[trigger] b[i] == a[a.len() - 1 - i],
    ensures rv(b) == s,
{
    assert(rv(a).len() == a.len() && newest_first(s).len() == s.len());
    let n = s.len() as int;
    assert(a.len() == n && b.len() == n);
    assert forall|i: int| 0 <= i < n implies (#[trigger] rv(b)[i]) == s[i] by {
        assert(b[i] == a[n - 1 - i]);
        assert(rv(b)[i] == b[i]@);
        assert(rv(a)[n - 1 - i] == a[n - 1 - i]@);
        assert(newest_first(s)[n - 1 - i] == s[n - 1 - (n - 1 - i)]);
    }
    assert(rv(b) =~= s);
}
pub proof fn lemma_insert_front(a: Seq<EventRecord>, x: EventRecord, l: Log, j: int)
    requires 0 <= j < l.len(), rv(a) == l.skip(j + 1), x@ == l[j],
    ensures rv(a.insert(0, x)) == l.skip(j),
{
    let b = a.insert(0, x);
    assert(rv(a).len() == a.len());
    assert forall|i: int| 0 <= i < b.len() implies (#[trigger] rv(b)[i]) == l.skip(j)[i] by {
        if i > 0 { assert(b[i] == a[i - 1]); assert(rv(a)[i - 1] == l.skip(j + 1)[i - 1]); }
    }
    assert(rv(b) =~= l.skip(j));
}
