// ===========================================================================
// prelude/dbvault_upsert.rs — unit `dbvault`, `FolderEntity::upsert_folder_and_secrets`
// (crates/database/src/entity/folder.rs:374): the INSERT of a folder row, the schema
// invariant it needs, the transaction as a formula and what follows from it (PROVED).
// Included inside `mod dbw` of units/dbvault.vrs only, after the definitions of
// `sql_upsert_all` / `colsv` / `cols_kv` / `lemma_upsert_all` (the unit file).  The two
// `external_body` items are ASSUMPTIONS (pinned SQL / std meaning), everything else is proved.
// (`folder_rid_exists`, `rid_fresh`, `inserted_folder_row` have the text of prelude/upgrade_spec.rs.)
// ===========================================================================

pub open spec fn folder_rid_exists(v: VDbV, rid: int) -> bool {
    exists|f: Seq<char>| v.folders.contains_key(f) && (#[trigger] v.folders[f]).row_id == rid
}
/// `rid` is the row id of no folder
pub open spec fn rid_fresh(v: VDbV, rid: int) -> bool {
    forall|k: Seq<char>| v.folders.contains_key(k) ==> (#[trigger] v.folders[k]).row_id != rid
}
/// FOREIGN KEY (folder_id) REFERENCES folders (folder_id) of `folder_secrets` (V1__base.sql:137; enforced: the bundled
/// SQLite has foreign keys on by default, and "PRAGMA foreign_keys = ON" crates/backend/src/lib.rs:192): no secret row
/// references a folder that does not exist — a NEW folder id has no secret rows yet
pub open spec fn secrets_fk(db: VDbV) -> bool {
    forall|k: Seq<char>| db.secrets.contains_key(k) ==> folder_rid_exists(db, (#[trigger] db.secrets[k]).folder_id)
}
/// the row "INSERT INTO folders (account_id, created_at, modified_at, identifier, name, salt, meta, seed, version, cipher,
/// kdf, flags) VALUES (?1 .. ?12)" adds for the bound values, with the rowid `rid` SQLite assigns
pub open spec fn inserted_folder_row(account_id: int, rid: int, created: Seq<char>, c: FolderColsV) -> FolderRowV {
    FolderRowV { row_id: rid, account_id: account_id, created_at: created, modified_at: c.modified_at, name: c.name, salt: c.salt,
        meta: c.meta, seed: c.seed, version: c.version, cipher: c.cipher, kdf: c.kdf, flags: c.flags }
}
pub open spec fn sql_insert_folder(db: VDbV, account_id: int, rid: int, created: Seq<char>, c: FolderColsV) -> VDbV {
    VDbV { folders: db.folders.insert(c.identifier, inserted_folder_row(account_id, rid, created, c)), ..db }
}
/// the ten header columns `FolderRow::new_insert_parts(summary, salt, meta, seed)` computes (entity/folder.rs:83-103)
pub open spec fn parts_cols(s: SummaryV, salt: Option<Seq<char>>, meta: Option<Seq<u8>>, seed: Option<Seq<u8>>, m: Seq<char>) -> FolderColsV {
    FolderColsV {
        modified_at: m, identifier: uuid_text(s.id), name: s.name, salt: salt, meta: meta, seed: seed,
        version: s.version as int, cipher: cipher_text(s.cipher), kdf: kdf_text(s.kdf), flags: le64(s.flags),
    }
}

impl<'conn, C> FolderEntity<'conn, C> {
    /// PINNED SQL (entity/folder.rs:637 `insert_folder`):
    ///   "INSERT INTO folders (account_id, created_at, modified_at, identifier, name, salt, meta, seed,
    ///    version, cipher, kdf, flags) VALUES (?1, ?2, ?3, ?4, ?5, ?6, ?7, ?8, ?9, ?10, ?11, ?12)"
    ///   bound: (account_id, then the eleven fields of `folder_row` in that order); `Ok(last_insert_rowid())`.
    /// `folders.identifier` is UNIQUE (V1__base.sql:80): the statement fails when a row with that identifier exists.
    /// `folder_id INTEGER PRIMARY KEY` (:74) is the rowid alias: SQLite gives the new row an id no row of the table has.
    /// A failed statement changes nothing.  (Same contract, same pin as prelude/upgrade_types.rs.)
    #[verifier::external_body]
    pub fn insert_folder<H: DbHandle>(&self, h: &mut H, account_id: i64, folder_row: &FolderRow) -> (r: StdResult<i64, SqlError>)
        ensures
            r matches Ok(id) ==> !old(h).dbs().folders.contains_key(folder_row.cols().identifier)
                && rid_fresh(old(h).dbs(), id as int)
                && final(h).dbs() == sql_insert_folder(old(h).dbs(), account_id as int, id as int, folder_row.created(), folder_row.cols()),
            r is Err ==> final(h).dbs() == old(h).dbs(),
    { unimplemented!() }
}
impl Client {
    /// async_sqlite::Client::conn_mut_and_then (0.5.3 src/client.rs:245): as `conn_and_then`, with `&mut Connection`
    #[verifier::external_body]
    pub fn conn_mut_and_then<F, T, E2>(&self, db: &mut Connection, func: F) -> (r: core::result::Result<T, E2>)
        where F: FnOnce(&mut Connection) -> core::result::Result<T, E2>,
        requires func.requires((old(db),)),
        ensures
            r matches Ok(t) ==> func.ensures((old(db),), Ok(t)),
            r is Err ==> final(db)@ == old(db)@ || exists|e: E2| #![auto] func.ensures((old(db),), Err(e)),
    { unimplemented!() }
}
/// `std::collections::HashMap<SecretId, i64>` as `insert_folder_secrets` builds it: secret id -> `last_insert_rowid()` of the
/// upsert.  The rowid of `folder_secrets` is not modelled; the view is the set of ids the map has an entry for.
#[verifier::external_body]
pub struct SecretIdMap { _p: () }
impl SecretIdMap {
    pub uninterp spec fn keys(&self) -> ISet<Seq<u8>>;
    /// `HashMap::new()`
    #[verifier::external_body]
    pub fn new() -> (r: SecretIdMap) ensures r.keys() == ISet::<Seq<u8>>::empty() { unimplemented!() }
    /// `HashMap::insert` (an existing entry is replaced)
    #[verifier::external_body]
    pub fn insert(&mut self, k: SecretId, v: i64) -> (r: Option<i64>) ensures final(self).keys() == old(self).keys().insert(k.0@) { unimplemented!() }
}
/// the ids `insert_folder_secrets` parsed from the identifiers of `rows`
pub open spec fn parsed_ids(rows: Seq<SecretColsV>) -> ISet<Seq<u8>> {
    ISet::new(|b: Seq<u8>| exists|i: int| 0 <= i < rows.len() && uuid_parse((#[trigger] rows[i]).identifier) == Some(b))
}

// ---- the transaction of `upsert_folder_and_secrets` -------------------------------------------------------------
/// existing folder: UPDATE folders (ten columns), DELETE its secret rows, one upsert per row; new folder: INSERT INTO
/// folders for `account_id` (new row id `rid_new`), one upsert per row
pub open spec fn upsert_tx(db: VDbV, f: Seq<char>, account_id: int, rid_new: int, created: Seq<char>, c: FolderColsV, rows: Seq<SecretColsV>) -> VDbV {
    if db.folders.contains_key(f) {
        sql_upsert_all(sql_delete_all_secrets(sql_update_folder(db, f, c), rid_of(db, f)), rid_of(db, f), rows)
    } else {
        sql_upsert_all(sql_insert_folder(db, account_id, rid_new, created, c), rid_new, rows)
    }
}
/// the row the folder has afterwards keeps row id / account / created_at of `keep`
pub open spec fn upsert_keep(db: VDbV, f: Seq<char>, account_id: int, rid_new: int, created: Seq<char>) -> FolderRowV {
    if db.folders.contains_key(f) { db.folders[f] } else { FolderRowV { row_id: rid_new, account_id: account_id, created_at: created, ..arbitrary::<FolderRowV>() } }
}
pub proof fn lemma_upsert_tx(db: VDbV, f: Seq<char>, account_id: int, rid_new: int, created: Seq<char>, c: FolderColsV, rows: Seq<SecretColsV>)
    requires db_wf(db), secrets_fk(db), c.identifier == f, !db.folders.contains_key(f) ==> rid_fresh(db, rid_new),
    ensures ({
        let d = upsert_tx(db, f, account_id, rid_new, created, c, rows);
        let rid = if db.folders.contains_key(f) { rid_of(db, f) } else { rid_new };
        &&& db_wf(d) && secrets_fk(d)
        &&& has_folder(d, f) && rid_of(d, f) == rid
        &&& dview(d, f) == (DbFolderV { row: unstamped(with_cols(upsert_keep(db, f, account_id, rid_new, created), c)), secrets: ins_all(IMap::<Seq<char>, SecV>::empty(), cols_kv(rows)) })
        &&& kv_not_elsewhere(db, rid, cols_kv(rows)) ==> others_same(db, d, f, f, rid)
        &&& d.rest == db.rest
    }),
{
    let d = upsert_tx(db, f, account_id, rid_new, created, c, rows);
    if db.folders.contains_key(f) {
        let rid = rid_of(db, f);
        let d1 = sql_update_folder(db, f, c);
        lemma_update_folder(db, f, c);
        let d2 = sql_delete_all_secrets(d1, rid);
        lemma_delete_all(d1, f);
        lemma_upsert_all(d2, f, rid, rows);
        assert forall|a: Seq<char>, b: Seq<char>| d.folders.contains_key(a) && d.folders.contains_key(b)
            && (#[trigger] d.folders[a]).row_id == (#[trigger] d.folders[b]).row_id implies a == b by {}
        lemma_fk_after(db, d, f, rid);
        if kv_not_elsewhere(db, rid, cols_kv(rows)) {
            assert forall|i: int| 0 <= i < cols_kv(rows).len() implies id_not_elsewhere(d2, rid, (#[trigger] cols_kv(rows)[i]).0) by {
                assert(id_not_elsewhere(db, rid, cols_kv(rows)[i].0));
            }
            lemma_others_same_trans(db, d1, d2, f, f, f, rid);
            lemma_others_same_trans(db, d2, d, f, f, f, rid);
        }
    } else {
        let rid = rid_new;
        let d1 = sql_insert_folder(db, account_id, rid, created, c);
        // a new folder id has no secret rows (foreign key)
        assert forall|k: Seq<char>| !secret_in(db, rid, k) by {
            if db.secrets.contains_key(k) { assert(folder_rid_exists(db, db.secrets[k].folder_id)); }
        }
        assert(secrets_of(d1, rid) =~= IMap::<Seq<char>, SecV>::empty());
        assert(d1.folders.contains_key(f) && rid_of(d1, f) == rid);
        lemma_upsert_all(d1, f, rid, rows);
        assert forall|a: Seq<char>, b: Seq<char>| d.folders.contains_key(a) && d.folders.contains_key(b)
            && (#[trigger] d.folders[a]).row_id == (#[trigger] d.folders[b]).row_id implies a == b by {
            if a != f { assert(db.folders.contains_key(a) && db.folders[a] == d.folders[a]); }
            if b != f { assert(db.folders.contains_key(b) && db.folders[b] == d.folders[b]); }
        }
        assert(folder_rid_exists(d, rid));
        assert forall|r: int| folder_rid_exists(db, r) implies folder_rid_exists(d, r) by {
            let g = choose|g: Seq<char>| db.folders.contains_key(g) && (#[trigger] db.folders[g]).row_id == r;
            assert(d.folders.contains_key(g) && d.folders[g].row_id == r);
        }
        assert forall|k: Seq<char>| d.secrets.contains_key(k) implies folder_rid_exists(d, (#[trigger] d.secrets[k]).folder_id) by {
            if d.secrets[k].folder_id != rid {
                assert(d1.secrets.contains_key(k) && d1.secrets[k].folder_id == d.secrets[k].folder_id);
                assert(folder_rid_exists(db, db.secrets[k].folder_id));
            }
        }
        if kv_not_elsewhere(db, rid, cols_kv(rows)) {
            assert forall|i: int| 0 <= i < cols_kv(rows).len() implies id_not_elsewhere(d1, rid, (#[trigger] cols_kv(rows)[i]).0) by {
                assert(id_not_elsewhere(db, rid, cols_kv(rows)[i].0));
            }
            assert(db.folders.remove(f) =~= d1.folders.remove(f));
            assert(others_same(db, d1, f, f, rid));
            lemma_others_same_trans(db, d1, d, f, f, f, rid);
        }
    }
}
/// the foreign key survives a transaction that keeps the folder keys / row ids and moves rows only INTO folder `rid`
pub proof fn lemma_fk_after(db: VDbV, d: VDbV, f: Seq<char>, rid: int)
    requires secrets_fk(db), db.folders.contains_key(f), rid_of(db, f) == rid, d.folders.contains_key(f), rid_of(d, f) == rid,
        forall|k: Seq<char>| db.folders.contains_key(k) ==> d.folders.contains_key(k) && (#[trigger] d.folders[k]).row_id == db.folders[k].row_id,
        forall|k: Seq<char>| d.secrets.contains_key(k) ==> (#[trigger] d.secrets[k]).folder_id == rid || (db.secrets.contains_key(k) && db.secrets[k].folder_id == d.secrets[k].folder_id),
    ensures secrets_fk(d),
{
    assert forall|k: Seq<char>| d.secrets.contains_key(k) implies folder_rid_exists(d, (#[trigger] d.secrets[k]).folder_id) by {
        if d.secrets[k].folder_id != rid {
            let r = db.secrets[k].folder_id;
            assert(folder_rid_exists(db, r));
            let g = choose|g: Seq<char>| db.folders.contains_key(g) && (#[trigger] db.folders[g]).row_id == r;
            assert(d.folders.contains_key(g) && d.folders[g].row_id == r);
        }
    }
}

/// what the transaction closure of `upsert_folder_and_secrets` guarantees on `Ok((id, map))`
pub open spec fn upsert_closure_post(c0: VDbV, c1: VDbV, f: Seq<char>, account_id: int, id: int, created: Seq<char>, c: FolderColsV, rows: Seq<SecretColsV>, keys: ISet<Seq<u8>>) -> bool {
    &&& c1 == upsert_tx(c0, f, account_id, id, created, c, rows)
    &&& c0.folders.contains_key(f) ==> id == rid_of(c0, f)
    &&& !c0.folders.contains_key(f) ==> rid_fresh(c0, id)
    &&& keys == parsed_ids(rows)
}

/// the ids parsed back from rows built from a vault's entries are the vault's secret ids
pub proof fn lemma_parsed_vault_ids(rows: Seq<SecretColsV>, es: Seq<(Seq<u8>, VaultCommitV)>)
    requires rows.len() == es.len(), forall|j: int| 0 <= j < es.len() ==> (#[trigger] rows[j]).identifier == uuid_text(es[j].0) && es[j].0.len() == 16,
    ensures forall|b: Seq<u8>| #![auto] parsed_ids(rows).contains(b) <==> m_has(es, b),
{
    assert forall|b: Seq<u8>| #![auto] parsed_ids(rows).contains(b) <==> m_has(es, b) by {
        if parsed_ids(rows).contains(b) {
            let i = choose|i: int| 0 <= i < rows.len() && uuid_parse((#[trigger] rows[i]).identifier) == Some(b);
            axiom_uuid_text_roundtrip(es[i].0);
            assert(es[i].0 == b);
        }
        if m_has(es, b) {
            let i = m_idx(es, b);
            axiom_uuid_text_roundtrip(es[i].0);
            assert(uuid_parse(rows[i].identifier) == Some(b));
        }
    }
}
