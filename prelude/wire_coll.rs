// ===========================================================================
// prelude/wire_coll.rs — collection stand-ins used by the protobuf bindings
// (indexmap-2.x IndexSet / IndexMap, std HashMap) and the R12 helpers for the
// iterator chains over them.  Views are taken over the ELEMENT VIEWS; this
// assumes that `Eq`/`Hash` of the element and key types agree with equality of
// their views (all of them derive Hash/Eq over uuids, byte arrays and enums:
// ExternalFile, Tracked*Change, VaultId).
// ===========================================================================

/// insertion into an insertion-ordered set: a value already present is ignored
pub open spec fn iset_insert<T>(s: Seq<T>, x: T) -> Seq<T> { if s.contains(x) { s } else { s.push(x) } }
/// the set built by inserting the items of `s` from left to right
pub open spec fn iset_of<T>(s: Seq<T>) -> Seq<T>
    decreases s.len(),
{
    if s.len() == 0 { Seq::<T>::empty() } else { iset_insert(iset_of(s.drop_last()), s.last()) }
}
pub proof fn lemma_iset_of_unique<T>(s: Seq<T>)
    requires s.no_duplicates(),
    ensures iset_of(s) == s,
    decreases s.len(),
{
    if s.len() == 0 {
        assert(s =~= Seq::<T>::empty());
    } else {
        let p = s.drop_last();
        assert(p.no_duplicates());
        lemma_iset_of_unique(p);
        assert(!p.contains(s.last())) by {
            if p.contains(s.last()) {
                let j = choose|j: int| 0 <= j < p.len() && p[j] == s.last();
                assert(s[j] == s[s.len() - 1]);
            }
        }
        assert(p.push(s.last()) =~= s);
    }
}

/// indexmap::IndexSet<T> (indexmap-2.x src/set.rs): hash set that keeps
/// insertion order; `insert` of a value already present leaves the set
/// unchanged; iteration is in insertion order.
#[verifier::external_body]
#[verifier::reject_recursive_types(T)]
pub struct IndexSet<T> { _p: core::marker::PhantomData<T> }
impl<T: View> View for IndexSet<T> {
    type V = Seq<T::V>;
    uninterp spec fn view(&self) -> Seq<T::V>;
}
impl<T: View> IndexSet<T> {
    #[verifier::external_body]
    pub fn new() -> (r: IndexSet<T>)
        ensures r@ == Seq::<T::V>::empty(),
    { unimplemented!() }
    /// capacity is a hint only
    #[verifier::external_body]
    pub fn with_capacity(n: usize) -> (r: IndexSet<T>)
        ensures r@ == Seq::<T::V>::empty(),
    { unimplemented!() }
    #[verifier::external_body]
    pub fn insert(&mut self, x: T) -> (b: bool)
        ensures final(self)@ == iset_insert(old(self)@, x@), b == !old(self)@.contains(x@),
    { unimplemented!() }
    // ---- further commonly used methods of indexmap::IndexSet (indexmap-2.x src/set.rs), same view ----
    /// `len`: number of elements
    #[verifier::external_body]
    pub fn len(&self) -> (n: usize)
        ensures n == self@.len(),
    { unimplemented!() }
    #[verifier::external_body]
    pub fn is_empty(&self) -> (b: bool)
        ensures b == (self@.len() == 0),
    { unimplemented!() }
    /// `contains`: membership (by `Eq`, which agrees with equality of the views, see the file header)
    #[verifier::external_body]
    pub fn contains(&self, x: &T) -> (b: bool)
        ensures b == self@.contains(x@),
    { unimplemented!() }
    /// `insert_full`: like `insert`, also returns the index of the value in the set
    #[verifier::external_body]
    pub fn insert_full(&mut self, x: T) -> (r: (usize, bool))
        ensures final(self)@ == iset_insert(old(self)@, x@), r.1 == !old(self)@.contains(x@),
            0 <= r.0 < final(self)@.len(), final(self)@[r.0 as int] == x@,
    { unimplemented!() }
    /// `shift_remove`: removes the value if present, the order of the others is kept
    #[verifier::external_body]
    pub fn shift_remove(&mut self, x: &T) -> (b: bool)
        ensures b == old(self)@.contains(x@), final(self)@ == old(self)@.filter(|y: T::V| y != x@),
    { unimplemented!() }
    #[verifier::external_body]
    pub fn clear(&mut self)
        ensures final(self)@ == Seq::<T::V>::empty(),
    { unimplemented!() }
}
/// `set.into_iter().collect::<Vec<_>>()`: the elements in insertion order, no duplicates
#[verifier::external_body]
pub fn iset_into_vec<T: View>(s: IndexSet<T>) -> (r: Vec<T>)
    ensures sview(r@) == s@, s@.no_duplicates(),
{ unimplemented!() }

// ---- insertion-ordered map (IndexMap) over key/value VIEWS ------------------------------------
/// uuid::Uuid viewed as its 16 bytes (keys of the folder maps)
impl View for Uuid {
    type V = Seq<u8>;
    open spec fn view(&self) -> Seq<u8> { self.0@ }
}
pub open spec fn imap_has<K, V>(s: Seq<(K, V)>, k: K) -> bool { exists|i: int| 0 <= i < s.len() && (#[trigger] s[i]).0 == k }
pub open spec fn imap_pos<K, V>(s: Seq<(K, V)>, k: K) -> int { choose|i: int| 0 <= i < s.len() && (#[trigger] s[i]).0 == k }
/// IndexMap::insert: an existing key keeps its position and gets the new value, a new key is appended
pub open spec fn imap_insert<K, V>(s: Seq<(K, V)>, k: K, v: V) -> Seq<(K, V)> {
    if imap_has(s, k) { s.update(imap_pos(s, k), (k, v)) } else { s.push((k, v)) }
}
/// the map built by inserting the pairs of `s` from left to right
pub open spec fn imap_of<K, V>(s: Seq<(K, V)>) -> Seq<(K, V)>
    decreases s.len(),
{
    if s.len() == 0 { Seq::<(K, V)>::empty() } else { imap_insert(imap_of(s.drop_last()), s.last().0, s.last().1) }
}
pub open spec fn keys_distinct<K, V>(s: Seq<(K, V)>) -> bool {
    forall|i: int, j: int| 0 <= i < s.len() && 0 <= j < s.len() && i != j ==> (#[trigger] s[i]).0 != (#[trigger] s[j]).0
}
pub proof fn lemma_imap_of_distinct<K, V>(s: Seq<(K, V)>)
    requires keys_distinct(s),
    ensures imap_of(s) == s,
    decreases s.len(),
{
    if s.len() == 0 {
        assert(s =~= Seq::<(K, V)>::empty());
    } else {
        let p = s.drop_last();
        assert(keys_distinct(p)) by {
            assert forall|i: int, j: int| 0 <= i < p.len() && 0 <= j < p.len() && i != j implies (#[trigger] p[i]).0 != (#[trigger] p[j]).0 by {
                assert(p[i] == s[i] && p[j] == s[j]);
            }
        }
        lemma_imap_of_distinct(p);
        assert(!imap_has(p, s.last().0)) by {
            if imap_has(p, s.last().0) {
                let j = imap_pos(p, s.last().0);
                assert(p[j] == s[j]);
                assert(s[j].0 == s[s.len() - 1].0);
            }
        }
        assert(p.push((s.last().0, s.last().1)) =~= s);
    }
}
pub open spec fn pairs_view<K: View, V: View>(s: Seq<(K, V)>) -> Seq<(K::V, V::V)> { Seq::new(s.len(), |i: int| (s[i].0@, s[i].1@)) }

/// indexmap::IndexMap<K, V> (indexmap-2.x src/map.rs): hash map that keeps
/// insertion order of the keys; iteration is in that order.
#[verifier::external_body]
#[verifier::reject_recursive_types(K)]
#[verifier::reject_recursive_types(V)]
pub struct IndexMap<K, V> { _p: core::marker::PhantomData<(K, V)> }
impl<K: View, V: View> View for IndexMap<K, V> {
    type V = Seq<(K::V, V::V)>;
    uninterp spec fn view(&self) -> Seq<(K::V, V::V)>;
}
impl<K: View, V: View> IndexMap<K, V> {
    /// capacity is a hint only
    #[verifier::external_body]
    pub fn with_capacity(n: usize) -> (r: IndexMap<K, V>)
        ensures r@ == Seq::<(K::V, V::V)>::empty(),
    { unimplemented!() }
    #[verifier::external_body]
    pub fn insert(&mut self, k: K, v: V) -> (old_value: Option<V>)
        ensures final(self)@ == imap_insert(old(self)@, k@, v@),
    { unimplemented!() }
    // ---- further commonly used methods of indexmap::IndexMap (indexmap-2.x src/map.rs), same view ----
    #[verifier::external_body]
    pub fn new() -> (r: IndexMap<K, V>)
        ensures r@ == Seq::<(K::V, V::V)>::empty(),
    { unimplemented!() }
    #[verifier::external_body]
    pub fn len(&self) -> (n: usize)
        ensures n == self@.len(),
    { unimplemented!() }
    #[verifier::external_body]
    pub fn is_empty(&self) -> (b: bool)
        ensures b == (self@.len() == 0),
    { unimplemented!() }
    /// `contains_key` (by `Eq` of the key, which agrees with equality of the views, see the file header)
    #[verifier::external_body]
    pub fn contains_key(&self, k: &K) -> (b: bool)
        ensures b == imap_has(self@, k@),
    { unimplemented!() }
    /// `get`: the value stored under the key
    #[verifier::external_body]
    pub fn get(&self, k: &K) -> (r: Option<&V>)
        ensures r.is_some() == imap_has(self@, k@), r.is_some() ==> self@[imap_pos(self@, k@)] == (k@, r.unwrap()@),
    { unimplemented!() }
    #[verifier::external_body]
    pub fn clear(&mut self)
        ensures final(self)@ == Seq::<(K::V, V::V)>::empty(),
    { unimplemented!() }
}
/// `map.into_iter().collect::<Vec<_>>()`: the entries in insertion order, keys pairwise different
#[verifier::external_body]
pub fn imap_into_vec<K: View, V: View>(m: IndexMap<K, V>) -> (r: Vec<(K, V)>)
    ensures pairs_view(r@) == m@, keys_distinct(m@),
{ unimplemented!() }
/// `iter.map(f).collect::<Vec<_>>()` over the items of a vector (verified, not assumed)
pub fn vmap_with<A, B, F: Fn(A) -> B>(v: Vec<A>, f: F) -> (r: Vec<B>)
    requires forall|a: A| call_requires(f, (a,)),
    ensures r@.len() == v@.len(), forall|i: int| 0 <= i < v@.len() ==> call_ensures(f, (v@[i],), #[trigger] r@[i]),
{
    let mut out: Vec<B> = Vec::new();
    for x in it: v
        invariant it.seq() == v@, out@.len() == it.index@, forall|a: A| call_requires(f, (a,)),
            forall|i: int| 0 <= i < it.index@ ==> call_ensures(f, (v@[i],), #[trigger] out@[i]),
    { out.push(f(x)); }
    out
}

// ---- std::collections::HashMap over key/value VIEWS ----------------------------------------------
/// the map built by inserting the pairs of `s` from left to right (a later pair wins)
pub open spec fn hmap_of<K, V>(s: Seq<(K, V)>) -> Map<K, V>
    decreases s.len(),
{
    if s.len() == 0 { Map::<K, V>::empty() } else { hmap_of(s.drop_last()).insert(s.last().0, s.last().1) }
}
/// std::collections::HashMap<K, V> (std 1.9x library/std/src/collections/hash/map.rs)
/// viewed as a finite map; the iteration order is unspecified.
#[verifier::external_body]
#[verifier::reject_recursive_types(K)]
#[verifier::reject_recursive_types(V)]
pub struct HashMap<K, V> { _p: core::marker::PhantomData<(K, V)> }
impl<K: View, V: View> View for HashMap<K, V> {
    type V = Map<K::V, V::V>;
    uninterp spec fn view(&self) -> Map<K::V, V::V>;
}
impl<K: View, V: View> HashMap<K, V> {
    /// capacity is a hint only
    #[verifier::external_body]
    pub fn with_capacity(n: usize) -> (r: HashMap<K, V>)
        ensures r@ == Map::<K::V, V::V>::empty(),
    { unimplemented!() }
    #[verifier::external_body]
    pub fn insert(&mut self, k: K, v: V) -> (old_value: Option<V>)
        ensures final(self)@ == old(self)@.insert(k@, v@),
    { unimplemented!() }
    // ---- further commonly used methods of std::collections::HashMap (same source), same view ----
    #[verifier::external_body]
    pub fn new() -> (r: HashMap<K, V>)
        ensures r@ == Map::<K::V, V::V>::empty(),
    { unimplemented!() }
    #[verifier::external_body]
    pub fn len(&self) -> (n: usize)
        ensures self@.dom().finite(), n == self@.dom().len(),
    { unimplemented!() }
    #[verifier::external_body]
    pub fn is_empty(&self) -> (b: bool)
        ensures b == (self@ == Map::<K::V, V::V>::empty()),
    { unimplemented!() }
    /// `contains_key` (by `Eq` of the key, which agrees with equality of the views, see the file header)
    #[verifier::external_body]
    pub fn contains_key(&self, k: &K) -> (b: bool)
        ensures b == self@.dom().contains(k@),
    { unimplemented!() }
    #[verifier::external_body]
    pub fn get(&self, k: &K) -> (r: Option<&V>)
        ensures r.is_some() == self@.dom().contains(k@), r.is_some() ==> r.unwrap()@ == self@[k@],
    { unimplemented!() }
    /// `remove`: the entry is gone, the old value (if any) is returned
    #[verifier::external_body]
    pub fn remove(&mut self, k: &K) -> (r: Option<V>)
        ensures final(self)@ == old(self)@.remove(k@), r.is_some() == old(self)@.dom().contains(k@),
            r.is_some() ==> r.unwrap()@ == old(self)@[k@],
    { unimplemented!() }
    #[verifier::external_body]
    pub fn clear(&mut self)
        ensures final(self)@ == Map::<K::V, V::V>::empty(),
    { unimplemented!() }
}
/// `map.into_iter().collect::<Vec<_>>()`: every entry exactly once, in an UNSPECIFIED order
#[verifier::external_body]
pub fn hmap_into_vec<K: View, V: View>(m: HashMap<K, V>) -> (r: Vec<(K, V)>)
    ensures keys_distinct(pairs_view(r@)), hmap_of(pairs_view(r@)) == m@,
{ unimplemented!() }
