// ===========================================================================
// prelude/files_fmt.rs — core::fmt / ToString / FromStr stand-ins of unit
// `files` (C17).  Included at the TOP LEVEL of units/files.vrs before the
// extraction of `impl fmt::Display for ExternalFileName`.
// Every `external_body` below is an ASSUMPTION.
// ===========================================================================
/// core::fmt: a `Formatter` is viewed as the text written to it so far; the
/// contract of `Display::fmt` is "appends `display_spec()`"; `to_string()` (std
/// blanket `impl<T: Display> ToString for T`) is the text `fmt` writes.
pub mod fmt {
    use vstd::prelude::*;
    #[derive(Debug)]
    pub struct Error { pub _p: () }
    pub type Result = core::result::Result<(), Error>;
    #[verifier::external_body]
    pub struct Formatter<'a> { _p: core::marker::PhantomData<&'a ()> }
    impl<'a> View for Formatter<'a> {
        type V = Seq<char>;
        uninterp spec fn view(&self) -> Seq<char>;
    }
    impl<'a> Formatter<'a> {
        #[verifier::external_body]
        pub fn write_str(&mut self, s: &str) -> (r: Result)
            ensures r.is_ok() ==> final(self)@ == old(self)@ + s@,
        { unimplemented!() }
    }
    pub trait Display {
        spec fn display_spec(&self) -> Seq<char>;
        fn fmt(&self, f: &mut Formatter<'_>) -> (r: Result)
            ensures r.is_ok() ==> final(f)@ == old(f)@ + self.display_spec();
    }
}
use fmt::Display;
pub trait ToStringStd {
    spec fn to_string_spec(&self) -> Seq<char>;
    fn to_string(&self) -> (r: String)
        ensures r@ == self.to_string_spec();
}
impl<T: fmt::Display> ToStringStd for T {
    open spec fn to_string_spec(&self) -> Seq<char> { self.display_spec() }
    #[verifier::external_body]
    fn to_string(&self) -> (r: String) { unimplemented!() }
}
/// core::str::FromStr (same shape; `use std::str::FromStr` is not extracted)
pub trait FromStr: Sized {
    type Err;
    fn from_str(s: &str) -> core::result::Result<Self, Self::Err>;
}

