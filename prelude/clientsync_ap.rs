// ===========================================================================
// prelude/clientsync_ap.rs — stand-ins of the unit `clientsync`
// for everything the extracted client code (folder_sync.rs, backend folder.rs,
// secret_storage.rs, traits.rs) calls but that lives in another unit: the
// backend access point (contracts = labels proved in unit `vaultmem`), the
// backend folder event log (obligations of unit `log`), FolderReducer::reduce /
// build (labels proved in unit `fold`), locks (R9), plaintext value types.
// Included at top level, after the extracted core types and prelude/fold_vault.rs.
// Everything `external_body` / `axiom` / `assume_specification` / `uninterp` here
// is an ASSUMPTION; each names the source that was read.
// ===========================================================================

// ---- error types (opaque; only constructed / converted) ------------------------
/// `sos_backend::Error` (crates/backend/src/error.rs, thiserror enum) — opaque
#[derive(Debug)]
pub struct BackendError { pub _p: () }
#[verifier::external]
impl core::fmt::Display for BackendError { fn fmt(&self, f: &mut core::fmt::Formatter<'_>) -> core::fmt::Result { Ok(()) } }
#[verifier::external]
impl std::error::Error for BackendError {}
/// `sos_backend::StorageError` (crates/backend/src/error.rs): the variant constructed here + catch-all
pub enum StorageError { FolderNotFound(VaultId), Other }
#[verifier::external]
impl core::fmt::Debug for StorageError { fn fmt(&self, f: &mut core::fmt::Formatter<'_>) -> core::fmt::Result { Ok(()) } }
/// `sos_core::AuthenticationError` (crates/core/src/error.rs:172)
#[derive(Debug)]
pub enum AuthenticationError { NotAuthenticated, Other }
/// `sos_client_storage::Error` (crates/storage/client/src/error.rs, thiserror enum):
/// the variants constructed by the extracted code + catch-all
pub enum ClientError { NoOpenVault, SecretNotFound(SecretId), Other }
#[verifier::external]
impl core::fmt::Debug for ClientError { fn fmt(&self, f: &mut core::fmt::Formatter<'_>) -> core::fmt::Result { Ok(()) } }
pub type ClResult<T> = core::result::Result<T, ClientError>;
pub type BkResult<T> = core::result::Result<T, BackendError>;
impl From<CoreError> for BackendError {
    /// `#[from] sos_core::Error`
    #[verifier::external_body]
    fn from(_e: CoreError) -> BackendError { BackendError { _p: () } }
}
impl From<VaultError> for BackendError {
    /// `#[from] sos_vault::Error`
    #[verifier::external_body]
    fn from(_e: VaultError) -> BackendError { BackendError { _p: () } }
}
impl From<BackendError> for ClientError {
    /// `#[from] sos_backend::Error`
    #[verifier::external_body]
    fn from(_e: BackendError) -> ClientError { ClientError::Other }
}
impl From<CoreError> for ClientError {
    /// `#[from] sos_core::Error`
    #[verifier::external_body]
    fn from(_e: CoreError) -> ClientError { ClientError::Other }
}
impl From<VaultError> for ClientError {
    /// `#[from] sos_vault::Error`
    #[verifier::external_body]
    fn from(_e: VaultError) -> ClientError { ClientError::Other }
}
impl From<StorageError> for ClientError {
    /// `#[from] sos_backend::StorageError`
    #[verifier::external_body]
    fn from(_e: StorageError) -> ClientError { ClientError::Other }
}
/// `sos_search::Error` (crates/search/src/error.rs): the variant constructed here + the `#[from]` wrappers
pub enum SearchError { NoSecretId(VaultId, SecretId), Other }
#[verifier::external]
impl core::fmt::Debug for SearchError { fn fmt(&self, f: &mut core::fmt::Formatter<'_>) -> core::fmt::Result { Ok(()) } }
pub type SeResult<T> = core::result::Result<T, SearchError>;
impl From<BackendError> for SearchError {
    /// `#[from] sos_backend::Error`
    #[verifier::external_body]
    fn from(_e: BackendError) -> SearchError { SearchError::Other }
}
impl From<SearchError> for ClientError {
    /// `#[from] sos_search::Error`
    #[verifier::external_body]
    fn from(_e: SearchError) -> ClientError { ClientError::Other }
}
impl From<AuthenticationError> for ClientError {
    /// `#[from] sos_core::AuthenticationError`
    #[verifier::external_body]
    fn from(_e: AuthenticationError) -> ClientError { ClientError::Other }
}

/// R4 (same text as prelude/base.rs, which this unit does not include because of its `Error` /
/// `Result` names): every panic!/unreachable! site becomes a call of this function; its
/// precondition `false` turns the site into a reachability obligation.
#[verifier::external_body]
pub fn vpanic() -> !
    requires false,
{
    panic!()
}

// ---- std helpers ------------------------------------------------------------------
/// `core::slice::from_ref` (core/src/slice/raw.rs): "Converts a reference to T into a slice of length 1"
pub assume_specification<T> [std::slice::from_ref] (e: &T) -> (r: &[T])
    ensures r@ == seq![*e];
/// `impl<T: Clone> ToOwned for T` (alloc/src/borrow.rs): `to_owned` is `clone`
pub assume_specification<T: Clone>[ <T as std::borrow::ToOwned>::to_owned ](t: &T) -> (r: T)
    ensures call_ensures(T::clone, (t,), r);

// ---- locks (R9) -------------------------------------------------------------------
/// R9: `Arc<tokio::sync::RwLock<T>>` — `read()` gives `&T`, `write()` gives `&mut T`.
/// Assumption: nobody else mutates `T` while the caller holds the guard; what other
/// tasks do between two acquisitions is C09 and not covered.  (Same stand-in as
/// prelude/merge_types.rs.)
pub struct VRwLock<T> { pub inner: T }
impl<T> VRwLock<T> {
    #[verifier::external_body]
    pub fn write(&mut self) -> (g: &mut T)
        ensures *g == old(self).inner, final(self).inner == *final(g),
    { &mut self.inner }
    #[verifier::external_body]
    pub fn read(&self) -> (g: &T)
        ensures *g == self.inner,
    { &self.inner }
}
/// R9: `Arc<tokio::sync::Mutex<T>>` — `lock()` gives `&mut T` (same assumption)
pub struct VMutex<T> { pub inner: T }
impl<T> VMutex<T> {
    /// R9: `lock()` in a `&self` function that only reads through the guard
    #[verifier::external_body]
    pub fn lock_shared(&self) -> (g: &T)
        ensures *g == self.inner,
    { &self.inner }
    #[verifier::external_body]
    pub fn lock(&mut self) -> (g: &mut T)
        ensures *g == old(self).inner, final(self).inner == *final(g),
    { &mut self.inner }
}

// ---- plaintext value types ---------------------------------------------------------
/// `sos_vault::secret::SecretMeta` (crates/vault/src/secret.rs): label, tags, kind,
/// favorite, urn, dates ... — opaque; the view is the whole value
#[verifier::external_body]
pub struct SecretMeta { _p: () }
#[verifier::external_body]
pub ghost struct SecretMetaV { _p: () }
impl View for SecretMeta { type V = SecretMetaV; uninterp spec fn view(&self) -> SecretMetaV; }
/// `sos_vault::secret::Secret` — opaque
#[verifier::external_body]
pub struct Secret { _p: () }
#[verifier::external_body]
pub ghost struct SecretV { _p: () }
impl View for Secret { type V = SecretV; uninterp spec fn view(&self) -> SecretV; }
/// `sos_vault::VaultMeta` (vault.rs:35): date created + description — opaque
#[verifier::external_body]
pub struct VaultMeta { _p: () }
#[verifier::external_body]
pub ghost struct VaultMetaV { _p: () }
impl View for VaultMeta { type V = VaultMetaV; uninterp spec fn view(&self) -> VaultMetaV; }
/// `urn::Urn` (urn-0.7) — opaque, cloned and used as a map key only
#[verifier::external_body]
pub struct Urn { _p: () }
impl Clone for Urn {
    #[verifier::external_body]
    fn clone(&self) -> (r: Urn) { unimplemented!() }
}
/// `sos_login::UrnLookup` = `HashMap<(VaultId, Urn), SecretId>` (crates/login/src/identity_folder.rs);
/// the identity folder's lookup table; none of the four properties talks about it: no contract
#[verifier::external_body]
pub struct UrnLookup { _p: () }
impl UrnLookup {
    /// `HashMap::insert`
    #[verifier::external_body]
    pub fn insert(&mut self, k: (VaultId, Urn), v: SecretId) -> (r: Option<SecretId>) { unimplemented!() }
    /// `HashMap::remove`
    #[verifier::external_body]
    pub fn remove(&mut self, k: &(VaultId, Urn)) -> (r: Option<SecretId>) { unimplemented!() }
    /// `HashMap::get`
    #[verifier::external_body]
    pub fn get(&self, k: &(VaultId, Urn)) -> (r: Option<&SecretId>) { unimplemented!() }
    /// `HashMap::contains_key`
    #[verifier::external_body]
    pub fn contains_key(&self, k: &(VaultId, Urn)) -> (r: bool) { unimplemented!() }
}
/// what `SecretMeta::touch` changes: `last_updated` only (secret.rs:421 `self.last_updated = Default::default()`)
pub uninterp spec fn touched(m: SecretMetaV) -> SecretMetaV;
impl SecretMeta {
    /// secret.rs:451 `self.urn.as_ref()`
    #[verifier::external_body]
    pub fn urn(&self) -> (r: Option<&Urn>) { unimplemented!() }
    /// secret.rs:421
    #[verifier::external_body]
    pub fn touch(&mut self)
        ensures final(self)@ == touched(old(self)@),
    { unimplemented!() }
}
impl Clone for SecretMeta {
    /// `#[derive(Clone)]`
    #[verifier::external_body]
    fn clone(&self) -> (r: SecretMeta) ensures r@ == self@, { unimplemented!() }
}
impl Clone for Secret {
    /// `#[derive(Clone)]`
    #[verifier::external_body]
    fn clone(&self) -> (r: Secret) ensures r@ == self@, { unimplemented!() }
}

// ---- decryption as a function ---------------------------------------------------------
/// what an access point needs to open a row: the vault's cipher and the private key it
/// holds (vaultmem: `self.vault@.head.summary.cipher`, `self.private_key`)
#[verifier::external_body]
pub ghost struct KeyCtx { _p: () }
/// vaultmem `read_row(cipher, key, row)`: both packs decrypted with the key and decoded
/// (`dec_pack` + `dec_SecretMeta` / `dec_Secret`); None when either step fails
pub uninterp spec fn open_row(k: KeyCtx, row: VaultCommitV) -> Option<(SecretMetaV, SecretV)>;
/// vaultmem `dec_VaultMeta(dec_pack(cipher, key, pack))`: the folder description blob opened
pub uninterp spec fn open_meta(k: KeyCtx, p: AeadPackV) -> Option<VaultMetaV>;

/// replace the value of an existing key, nothing for an absent key (as in prelude/vault_types.rs)
pub open spec fn m_update<K, V>(s: Seq<(K, V)>, k: K, v: V) -> Seq<(K, V)> {
    if m_has(s, k) { s.update(m_idx(s, k), (k, v)) } else { s }
}
pub open spec fn with_head_name(v: VaultV, n: Seq<char>) -> VaultV { VaultV { head: HeadV { name: n, ..v.head }, secrets: v.secrets } }
pub open spec fn with_head_flags(v: VaultV, f: u64) -> VaultV { VaultV { head: HeadV { flags: f, ..v.head }, secrets: v.secrets } }
pub open spec fn with_head_meta(v: VaultV, m: Option<AeadPackV>) -> VaultV { VaultV { head: HeadV { meta: m, ..v.head }, secrets: v.secrets } }
pub open spec fn with_rows(v: VaultV, s: Seq<(Seq<u8>, VaultCommitV)>) -> VaultV { VaultV { head: v.head, secrets: s } }

/// the decoding function of a write event (`impl Decodable for WriteEvent`,
/// crates/core/src/encoding/v1/events.rs; unit `codec`: `dec_WriteEvent`)
pub uninterp spec fn wevent_dec(b: Seq<u8>) -> Option<WriteEventV>;
impl Decoded for WriteEvent {
    open spec fn dec_view(b: Seq<u8>) -> Option<WriteEventV> { wevent_dec(b) }
}
/// events.rs:180 `EventKind::Noop => return Err(..)` (codec unit: `dec_WriteEvent_payload`
/// has no Noop arm): decoding never yields the Noop placeholder
pub broadcast axiom fn axiom_wevent_dec_not_noop(b: Seq<u8>)
    ensures (#[trigger] wevent_dec(b)) matches Some(e) ==> !(e is Noop);

// ---- the backend access point ----------------------------------------------------------
/// `sos_backend::AccessPoint` = `BackendAccessPoint(sos_vault::AccessPoint<Error>)`
/// (crates/backend/src/access_point.rs: every `SecretAccess` method delegates to the wrapped
/// access point, crates/vault/src/access_point.rs).  Abstract state: the vault held in
/// memory (`vv`), cipher + private key (`kc`), "the mirror stores exactly the vault held in
/// memory" (`mirrored`, vaultmem `inv()`).  Source facts used below: every mutating method
/// writes the mirror FIRST and then the in-memory vault, and the in-memory `Vault`
/// operations never fail, so an `Err` leaves the in-memory vault as it was.
#[verifier::external_body]
pub struct AccessPoint { _p: () }
impl AccessPoint {
    pub uninterp spec fn vv(&self) -> VaultV;
    pub uninterp spec fn kc(&self) -> KeyCtx;
    pub uninterp spec fn mirrored(&self) -> bool;
    /// `private_key.is_some()`
    pub uninterp spec fn unlocked(&self) -> bool;

    /// vaultmem [set_name_keeps_inv]
    #[verifier::external_body]
    pub fn set_vault_name(&mut self, name: String) -> (r: BkResult<WriteEvent>)
        ensures
            final(self).kc() == old(self).kc(), final(self).unlocked() == old(self).unlocked(),
            r is Err ==> final(self).vv() == old(self).vv(),
            r is Ok ==> final(self).vv() == with_head_name(old(self).vv(), name@) && r->Ok_0@ == WriteEventV::SetVaultName(name@)
                && (old(self).mirrored() ==> final(self).mirrored()),
    { unimplemented!() }
    /// vaultmem [set_flags_keeps_inv]
    #[verifier::external_body]
    pub fn set_vault_flags(&mut self, flags: VaultFlags) -> (r: BkResult<WriteEvent>)
        ensures
            final(self).kc() == old(self).kc(), final(self).unlocked() == old(self).unlocked(),
            r is Err ==> final(self).vv() == old(self).vv(),
            r is Ok ==> final(self).vv() == with_head_flags(old(self).vv(), flags.b) && r->Ok_0@ == WriteEventV::SetVaultFlags(flags.b)
                && (old(self).mirrored() ==> final(self).mirrored()),
    { unimplemented!() }
    /// vaultmem [meta_is_decrypt_of_blob]
    #[verifier::external_body]
    pub fn decrypt_meta(&self, meta_aead: &AeadPack) -> (r: BkResult<VaultMeta>)
        ensures r is Ok ==> self.unlocked() && open_meta(self.kc(), meta_aead@) == Some(r->Ok_0@),
    { unimplemented!() }
    /// vaultmem [vault_meta_needs_key_that_opens] + decrypt_meta of the header blob
    #[verifier::external_body]
    pub fn vault_meta(&self) -> (r: BkResult<VaultMeta>)
        ensures r is Ok ==> self.unlocked() && self.vv().head.meta is Some && open_meta(self.kc(), self.vv().head.meta->Some_0) == Some(r->Ok_0@),
    { unimplemented!() }
    /// vaultmem [set_meta_keeps_inv], [event_is_ciphertext_only] (the blob stored is the
    /// encryption of the encoded meta under the held key) + Axiom AEAD (it opens to that meta;
    /// for the asymmetric cipher: age decrypt-after-encrypt, ASSUMED)
    #[verifier::external_body]
    pub fn set_vault_meta(&mut self, meta_data: &VaultMeta) -> (r: BkResult<WriteEvent>)
        ensures
            final(self).kc() == old(self).kc(), final(self).unlocked() == old(self).unlocked(),
            r is Err ==> final(self).vv() == old(self).vv(),
            r is Ok ==> (r->Ok_0@ matches WriteEventV::SetVaultMeta(p) && open_meta(old(self).kc(), p) == Some(meta_data@)
                && final(self).vv() == with_head_meta(old(self).vv(), Some(p)))
                && (old(self).mirrored() ==> final(self).mirrored()),
    { unimplemented!() }
    /// vaultmem [decrypt_is_read_row] with `private_key == None` (the held key is used)
    #[verifier::external_body]
    pub fn decrypt_secret(&self, vault_commit: &VaultCommit, private_key: Option<&PrivateKey>) -> (r: BkResult<(SecretMeta, Secret)>)
        ensures r is Ok && private_key is None ==> self.unlocked() && open_row(self.kc(), vault_commit@) == Some((r->Ok_0.0@, r->Ok_0.1@)),
    { unimplemented!() }
    /// vaultmem [read_is_decrypt_of_stored]
    #[verifier::external_body]
    pub fn read_secret(&self, id: &SecretId) -> (r: BkResult<Option<(SecretMeta, Secret, ReadEvent)>>)
        ensures r is Ok ==> self.unlocked() && (r->Ok_0 is Some <==> m_has(self.vv().secrets, id@))
            && (r->Ok_0 matches Some(t) ==> open_row(self.kc(), m_get(self.vv().secrets, id@)->Some_0) == Some((t.0@, t.1@))),
    { unimplemented!() }
    /// vaultmem [raw_is_lookup]
    #[verifier::external_body]
    pub fn raw_secret(&self, id: &SecretId) -> (r: BkResult<Option<(VaultCommit, ReadEvent)>>)
        ensures r is Ok ==> (r->Ok_0 is Some <==> m_has(self.vv().secrets, id@))
            && (r->Ok_0 matches Some(p) ==> Some(p.0@) == m_get(self.vv().secrets, id@)),
    { unimplemented!() }
    /// crates/vault/src/access_point.rs `create_secret` -> vault.rs:1010 `Vault::insert_secret`:
    /// `self.contents.data.entry(id).or_insert(VaultCommit(commit, secret))`, event =
    /// `CreateSecret(id, value.clone())` with `value` the row in the map AFTER or_insert.
    /// Fresh id: vaultmem [create_keeps_inv], [event_is_ciphertext_only], [create_then_read]
    /// (the new row is pushed last and reads back as (meta, secret); asymmetric cipher: ASSUMED).
    /// Id already present (vaultmem known finding [ins_view]/[ins_event], D14): the in-memory
    /// vault is unchanged and the event carries the OLD row; the mirror has been written with
    /// the new row before, so nothing is promised about `mirrored`.
    #[verifier::external_body]
    pub fn create_secret(&mut self, secret_data: &SecretRow) -> (r: BkResult<WriteEvent>)
        ensures
            final(self).kc() == old(self).kc(), final(self).unlocked() == old(self).unlocked(),
            r is Err ==> final(self).vv() == old(self).vv(),
            r is Ok ==> old(self).unlocked() && (r->Ok_0@ matches WriteEventV::CreateSecret(eid, row) && eid == secret_data.id@
                && (if m_has(old(self).vv().secrets, eid) {
                        Some(row) == m_get(old(self).vv().secrets, eid) && final(self).vv() == old(self).vv()
                    } else {
                        open_row(old(self).kc(), row) == Some((secret_data.meta@, secret_data.secret@))
                        && final(self).vv() == with_rows(old(self).vv(), old(self).vv().secrets.push((eid, row)))
                        && (old(self).mirrored() ==> final(self).mirrored())
                    })),
    { unimplemented!() }
    /// access_point.rs `update_secret` -> vault.rs:1036 `Vault::update_secret` (`get_mut`: an absent
    /// id is a no-op returning `None`); vaultmem [update_keeps_inv], [event_is_ciphertext_only], [update_then_read]
    #[verifier::external_body]
    pub fn update_secret(&mut self, id: &SecretId, secret_meta: SecretMeta, secret: Secret) -> (r: BkResult<Option<WriteEvent>>)
        ensures
            final(self).kc() == old(self).kc(), final(self).unlocked() == old(self).unlocked(),
            r is Err ==> final(self).vv() == old(self).vv(),
            r is Ok ==> old(self).unlocked() && (old(self).mirrored() ==> final(self).mirrored())
                && (r->Ok_0 is Some <==> m_has(old(self).vv().secrets, id@))
                && (r->Ok_0 is None ==> final(self).vv() == old(self).vv())
                && (r->Ok_0 matches Some(e) ==> (e@ matches WriteEventV::UpdateSecret(eid, row) && eid == id@
                    && open_row(old(self).kc(), row) == Some((secret_meta@, secret@))
                    && final(self).vv() == with_rows(old(self).vv(), m_update(old(self).vv().secrets, eid, row)))),
    { unimplemented!() }
    /// access_point.rs `delete_secret` -> vault.rs:1051 (`shift_remove`); vaultmem [delete_keeps_inv], [delete_then_absent]
    #[verifier::external_body]
    pub fn delete_secret(&mut self, id: &SecretId) -> (r: BkResult<Option<WriteEvent>>)
        ensures
            final(self).kc() == old(self).kc(), final(self).unlocked() == old(self).unlocked(),
            r is Err ==> final(self).vv() == old(self).vv(),
            r is Ok ==> old(self).unlocked() && (old(self).mirrored() ==> final(self).mirrored())
                && final(self).vv() == with_rows(old(self).vv(), m_remove(old(self).vv().secrets, id@))
                && (r->Ok_0 is Some <==> m_has(old(self).vv().secrets, id@))
                && (r->Ok_0 matches Some(e) ==> e@ == WriteEventV::DeleteSecret(id@)),
    { unimplemented!() }
    /// vaultmem [replace_sets_memory], [replace_mirrors_when_asked]
    #[verifier::external_body]
    pub fn replace_vault(&mut self, vault: Vault, mirror_changes: bool) -> (r: BkResult<()>)
        ensures
            final(self).kc() == old(self).kc(), final(self).unlocked() == old(self).unlocked(),
            r is Err ==> final(self).vv() == old(self).vv(),
            r is Ok ==> final(self).vv() == vault@ && (mirror_changes ==> final(self).mirrored()),
    { unimplemented!() }
}
/// `sos_core::crypto::AccessKey` (password or age identity) — opaque
#[verifier::external_body]
pub struct AccessKey { _p: () }
/// the key context an access point holds after `unlock(key)` succeeded on a vault: cipher of the
/// vault + the private key derived from `key` with the vault's kdf, salt and seed (vaultmem
/// `private_of(vault, key)`); a function of the vault header and the key
pub uninterp spec fn unlock_ctx(head: HeadV, key: AccessKey) -> KeyCtx;
impl AccessPoint {
    /// backend/src/access_point.rs:26 `from_vault` -> vault/src/access_point.rs `AccessPoint::new`:
    /// `{ vault, private_key: None, mirror: None }`
    #[verifier::external_body]
    pub fn from_vault(vault: Vault) -> (r: AccessPoint)
        ensures r.vv() == vault@, !r.unlocked(),
    { unimplemented!() }
    /// vaultmem [vault_is_field]
    #[verifier::external_body]
    pub fn vault(&self) -> (r: &Vault)
        ensures r@ == self.vv(),
    { unimplemented!() }
    /// access_point.rs `id()`: `self.vault.id()` = `&header.summary.id`
    #[verifier::external_body]
    pub fn id(&self) -> (r: &VaultId)
        ensures r@ == vault_id(self.vv()),
    { unimplemented!() }
    /// vaultmem [unlock_only_with_own_key], [unlock_frame]
    #[verifier::external_body]
    pub fn unlock(&mut self, key: &AccessKey) -> (r: BkResult<VaultMeta>)
        ensures
            final(self).vv() == old(self).vv(), final(self).mirrored() == old(self).mirrored(),
            r is Ok ==> final(self).unlocked() && final(self).kc() == unlock_ctx(old(self).vv().head, *key),
    { unimplemented!() }
    /// vaultmem [lock_drops_key]
    #[verifier::external_body]
    pub fn lock(&mut self)
        ensures final(self).vv() == old(self).vv(), !final(self).unlocked(), final(self).mirrored() == old(self).mirrored(),
    { unimplemented!() }
    // -- the remaining read-only methods of `SecretAccess` (crates/vault/src/access_point.rs:35-145), so that
    //    an edit that calls one of them still composes --
    /// access_point.rs:289 `summary()`: `self.vault.summary()` = `&header.summary` (its id is the folder id)
    #[verifier::external_body]
    pub fn summary(&self) -> (r: &Summary)
        ensures r.sid() == vault_id(self.vv()),
    { unimplemented!() }
    /// access_point.rs:297 `name()`: `self.vault.name()` = the name in the header
    #[verifier::external_body]
    pub fn name(&self) -> (r: &str)
        ensures r@ == self.vv().head.name,
    { unimplemented!() }
    /// access_point.rs:256 `is_mirror()`: `self.mirror.is_some()` (whether a mirror is attached; says
    /// nothing about `mirrored()`): no contract
    #[verifier::external_body]
    pub fn is_mirror(&self) -> (r: bool) { unimplemented!() }
    /// access_point.rs:493 `verify(key)`: `self.vault.verify(key)`; reads only: no contract
    #[verifier::external_body]
    pub fn verify(&self, key: &AccessKey) -> (r: BkResult<()>) { unimplemented!() }
}
/// R12: `for id in vault.keys()` (vault.rs:805 `self.contents.data.keys()`, IndexMap order) is
/// rewritten to `for id in it: vkeys(vault)`: the ids of the rows, in order
#[verifier::external_body]
pub fn vkeys(v: &Vault) -> (r: Vec<&SecretId>)
    ensures r@.len() == v@.secrets.len(), forall|i: int| 0 <= i < r@.len() ==> (#[trigger] r@[i])@ == v@.secrets[i].0,
{ unimplemented!() }
/// `sos_core::crypto::PrivateKey` — opaque (only `None::<&PrivateKey>` is passed here)
#[verifier::external_body]
pub struct PrivateKey { _p: () }

/// the rows of a vault are distinct (IndexMap), whatever holds it
pub broadcast axiom fn axiom_ap_distinct(ap: AccessPoint)
    ensures m_distinct((#[trigger] ap.vv()).secrets);

// ---- the folder event log ------------------------------------------------------------------
pub type LogRow = core::result::Result<(EventRecord, WriteEvent), BackendError>;
/// `b` is `a` followed by one readable row per event of `es`, in order
pub open spec fn appended(a: Seq<LogRow>, b: Seq<LogRow>, es: Seq<WriteEventV>) -> bool {
    &&& b.len() == a.len() + es.len()
    &&& b.take(a.len() as int) == a
    &&& forall|j: int| 0 <= j < es.len() ==> (#[trigger] b[a.len() + j]) is Ok && (b[a.len() + j]->Ok_0).1@ == es[j]
}
/// `b` is `a` followed by one row per record of `recs`, in order; a row whose event bytes
/// decode is readable and shows that event (the stream decodes `record.3` with the same decoder)
pub open spec fn patch_appended(a: Seq<LogRow>, b: Seq<LogRow>, recs: Seq<EventRecord>) -> bool {
    &&& b.len() == a.len() + recs.len()
    &&& b.take(a.len() as int) == a
    &&& forall|j: int| 0 <= j < recs.len() ==> (wevent_dec((#[trigger] recs[j]).3@) matches Some(e) ==>
            b[a.len() + j] is Ok && (b[a.len() + j]->Ok_0).1@ == e)
}
/// `sos_backend::FolderEventLog` = `BackendEventLog<WriteEvent>` (crates/backend/src/event_log.rs:
/// dispatches to crates/filesystem/src/event_log.rs or crates/database/src/event_log.rs).
/// Abstract state: `rows()` = the persisted log as the forward stream shows it (the `items()` of
/// prelude/fold_vault.rs `EventLog`).  The contracts below are the C06/C07 obligations of unit
/// `log` ([append_exact], [applied_iff_equal], [conflict_changes_nothing], [replace_ok],
/// [replace_refused_unchanged]); here they are assumed.  I/O failures in the middle of an
/// operation (C13) are not modelled: an `Err` leaves the log as it was.
#[verifier::external_body]
pub struct FolderEventLog { _p: () }
impl FolderEventLog {
    pub uninterp spec fn rows(&self) -> Seq<LogRow>;
    pub uninterp spec fn diffs(&self, commit: Option<CommitHash>) -> Seq<EventRecord>;
    /// `EventLog::apply(&[T])`: encodes each event into a record and appends them in order
    #[verifier::external_body]
    pub fn apply(&mut self, events: &[WriteEvent]) -> (r: BkResult<()>)
        ensures
            r is Ok ==> appended(old(self).rows(), final(self).rows(), Seq::new(events@.len(), |i: int| events@[i]@)),
            r is Err ==> final(self).rows() == old(self).rows(),
    { unimplemented!() }
    /// `EventLog::patch_checked`: `Success` => the patch rows are appended; `Conflict` => nothing written
    #[verifier::external_body]
    pub fn patch_checked(&mut self, commit_proof: &CommitProof, patch: &Patch<WriteEvent>) -> (r: BkResult<CheckedPatch>)
        ensures
            r matches Ok(CheckedPatch::Success(_)) ==> patch_appended(old(self).rows(), final(self).rows(), patch.records()),
            r matches Ok(CheckedPatch::Conflict { .. }) ==> final(self).rows() == old(self).rows(),
            r is Err ==> final(self).rows() == old(self).rows(),
    { unimplemented!() }
    /// `EventLog::replace_all_events`: on Ok the log is exactly the diff's patch; on Err nothing has changed
    #[verifier::external_body]
    pub fn replace_all_events(&mut self, diff: &FolderDiff) -> (r: BkResult<()>)
        ensures
            r is Ok ==> patch_appended(Seq::<LogRow>::empty(), final(self).rows(), diff.patch.records()),
            r is Err ==> final(self).rows() == old(self).rows(),
    { unimplemented!() }
    // -- the other appending / clearing methods of `EventLog` (crates/core/src/events/event_log.rs), so that an
    //    edit that calls one of them still composes --
    /// event_log.rs:134 `patch_unchecked`: "Append a patch to this event log" (the success arm of
    /// `patch_checked` without the proof comparison)
    #[verifier::external_body]
    pub fn patch_unchecked(&mut self, patch: &Patch<WriteEvent>) -> (r: BkResult<()>)
        ensures
            r is Ok ==> patch_appended(old(self).rows(), final(self).rows(), patch.records()),
            r is Err ==> final(self).rows() == old(self).rows(),
    { unimplemented!() }
    /// event_log.rs:100 `apply_records`: "Append raw event records to the event log"
    #[verifier::external_body]
    pub fn apply_records(&mut self, records: Vec<EventRecord>) -> (r: BkResult<()>)
        ensures
            r is Ok ==> patch_appended(old(self).rows(), final(self).rows(), records@),
            r is Err ==> final(self).rows() == old(self).rows(),
    { unimplemented!() }
    /// event_log.rs:27 `clear`: "Delete all events from the log file on disc and in-memory"
    #[verifier::external_body]
    pub fn clear(&mut self) -> (r: BkResult<()>)
        ensures r is Ok ==> final(self).rows() == Seq::<LogRow>::empty(),
    { unimplemented!() }
}
impl EventLog<WriteEvent> for FolderEventLog {
    type Error = BackendError;
    open spec fn items(&self) -> Seq<LogRow> { self.rows() }
    open spec fn diff_records(&self, commit: Option<CommitHash>) -> Seq<EventRecord> { self.diffs(commit) }
    #[verifier::external_body]
    fn event_stream(&self, reverse: bool) -> (r: VStream<LogRow>) { unimplemented!() }
    #[verifier::external_body]
    fn diff_events(&self, commit: Option<&CommitHash>) -> (r: BkResult<Patch<WriteEvent>>) { unimplemented!() }
}

/// `sos_core::commit::CommitProof` (crates/core/src/commit/proof.rs) — carried, never inspected here
#[verifier::external_body]
pub struct CommitProof { _p: () }

// ---- FolderReducer: the labels PROVED in unit `fold` ---------------------------------------
pub open spec fn all_ok<T, E>(items: Seq<core::result::Result<T, E>>, n: int) -> bool {
    forall|i: int| 0 <= i < n ==> (#[trigger] items[i]) is Ok
}
/// the events of the log (meaningful where the item is Ok) — as in units/fold.vrs
pub open spec fn evs<E>(items: Seq<core::result::Result<(EventRecord, WriteEvent), E>>) -> Seq<WriteEventV> {
    Seq::new(items.len(), |i: int| (items[i]->Ok_0).1@)
}
impl FolderReducer {
    /// crates/reducers/src/folder.rs `reduce` with `until_commit == None`; fold unit labels
    /// [reduce_reads_clean_prefix], [reduce_empty_log], [reduce_starts_with_create], [reduce_is_replay]
    #[verifier::external_body]
    pub fn reduce<L, E>(self, event_log: &L) -> (r: core::result::Result<FolderReducer, E>)
        where L: EventLog<WriteEvent, Error = E>, E: std::error::Error + std::fmt::Debug + From<CoreError>,
        requires self.fresh(), self.until_s() is None,
        ensures
            r is Ok ==> all_ok(event_log.items(), event_log.items().len() as int),
            r is Ok && event_log.items().len() == 0 ==> (r->Ok_0).fresh(),
            r is Ok && event_log.items().len() > 0 ==> evs(event_log.items())[0] is CreateVault
                && (r->Ok_0).buf() == Some(evs(event_log.items())[0]->CreateVault_0)
                && (r->Ok_0).fview() == replay(evs(event_log.items())),
    { unimplemented!() }
    /// `build(include_secrets)`; fold unit labels [build_ok_iff_decodes],
    /// [build_view_on_head_only_buffer], [build_head_applied], [build_nothing_reduced].
    /// NOT assumed: [build_view] for a create-vault buffer that embeds rows (known finding of unit fold).
    #[verifier::external_body]
    pub fn build(self, include_secrets: bool) -> (r: core::result::Result<Vault, VaultError>)
        ensures
            self.buf() matches Some(b) ==> (r is Ok <==> vault_dec(b) is Some),
            r is Ok && self.buf() is Some && include_secrets && vault_dec(self.buf()->Some_0)->Some_0.secrets.len() == 0
                ==> vault_view((r->Ok_0)@) == self.fview(),
            r is Ok && self.buf() is Some ==> (r->Ok_0)@.head.name == self.fview().name
                && (r->Ok_0)@.head.flags == self.fview().flags && (r->Ok_0)@.head.meta == self.fview().meta,
            self.buf() is None ==> r is Ok,
    { unimplemented!() }
}
