// ===========================================================================
// prelude/log_iter.rs — `FormatStream` (crates/filesystem/src/formats/stream.rs)
// as a STAND-IN for unit `log`.  Its contracts are the ones PROVED for the real
// code in units/stream.vrs:
//   new_file  : [new_file_starts_before_first_row]
//   next      : the contract of trait FormatStreamIterator (prelude/log_spec_rows.rs):
//               [next_keeps_stream] [forward_is_row_k] [back_is_mirror]
// Included at TOP LEVEL of the unit, after prelude/log_spec_rows.rs.
// Link to the ghost file system: `rs_bytes(file)` of stream.vrs — the bytes
// the read handle yields — is `file@.snap` (assumption SNAP of log_fs.rs).
// ===========================================================================
#[verifier::external_body]
#[verifier::reject_recursive_types(T)]
#[verifier::reject_recursive_types(R)]
pub struct FormatStream<T, R> { _p: core::marker::PhantomData<(T, R)> }

impl<T, R> FormatStream<T, R> {
    pub uninterp spec fn bytes(&self) -> Seq<u8>;
    pub uninterp spec fn hdr(&self) -> int;
    pub uninterp spec fn fwd(&self) -> Option<u64>;
    pub uninterp spec fn bwd(&self) -> Option<u64>;
    pub uninterp spec fn prefix(&self) -> bool;
    pub uninterp spec fn rev(&self) -> bool;
}
impl<T: FileItem + Send> FormatStream<T, File> {
    /// stream.vrs [new_file_starts_before_first_row]
    #[verifier::external_body]
    pub fn new_file(read_stream: File, identity: &'static [u8], data_length_prefix: bool, header_offset: Option<u64>, reverse: bool) -> (r: FsResult<Self>)
        ensures
            r matches Ok(s) ==> s.bytes() == read_stream@.snap && s.hdr() == (match header_offset { Some(o) => o as int, None => identity@.len() as int })
                && s.fwd() is None && s.bwd() is None && s.prefix() == data_length_prefix && s.rev() == reverse,
    { unimplemented!() }
}
impl<T: FileItem + Send> FormatStreamIterator<T> for FormatStream<T, File> {
    open spec fn it_bytes(&self) -> Seq<u8> { self.bytes() }
    open spec fn it_hdr(&self) -> int { self.hdr() }
    open spec fn it_prefix(&self) -> bool { self.prefix() }
    open spec fn it_rev(&self) -> bool { self.rev() }
    open spec fn it_fwd(&self) -> Option<u64> { self.fwd() }
    open spec fn it_bwd(&self) -> Option<u64> { self.bwd() }
    /// contract: the trait's (proved in stream.vrs for this impl)
    #[verifier::external_body]
    fn next(&mut self) -> (r: FsResult<Option<T>>) { unimplemented!() }
}
