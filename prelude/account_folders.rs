// ===========================================================================
// prelude/account_folders.rs — stand-ins of unit `account` (module `c01`) for the FOLDER operations (create, rename,
// re-flag, describe, delete): the vault under construction, `sos_backend::Folder` head operations (labels proved in units
// clientsync / vaultmem), the account event log, summaries helpers.  Included after prelude/account_store.rs in `mod spre`.
// Everything `external_body` / `uninterp` / `axiom` here is an ASSUMPTION; each names the source that was read.
// ===========================================================================

// ---- write events with their payload (the folder log) -------------------------------------------------------------
/// what a folder write event says (clientsync `WriteEventV`): the vault buffer, the new name / flags, the description the
/// new meta blob opens to with the folder key (clientsync `open_meta`), or a secret event (payload not looked at here)
pub ghost enum WEv { CreateVault(Seq<u8>), SetVaultName(Seq<char>), SetVaultFlags(u64), SetVaultMeta(Seq<char>), Secret }
/// the description a meta blob opens to (with the key of the folder it was made for)
pub uninterp spec fn meta_desc(p: AeadPack) -> Seq<char>;
impl View for WriteEvent {
    type V = WEv;
    open spec fn view(&self) -> WEv {
        match self { WriteEvent::CreateVault(b) => WEv::CreateVault(b@), WriteEvent::SetVaultName(n) => WEv::SetVaultName(n@), WriteEvent::SetVaultFlags(f) => WEv::SetVaultFlags(f.b),
            WriteEvent::SetVaultMeta(p) => WEv::SetVaultMeta(meta_desc(*p)), WriteEvent::Secret(_) => WEv::Secret }
    }
}
pub open spec fn wviews(s: Seq<WriteEvent>) -> Seq<WEv> { Seq::new(s.len(), |i: int| s[i]@) }

// ---- vaults -------------------------------------------------------------------------------------------------------
/// a vault as the account layer sees it: id, head (name, flags, description) and its live secrets
pub ghost struct VaultG { pub id: Seq<u8>, pub head: FolderHead, pub secrets: Map<Seq<u8>, SecV> }
/// `sos_vault::Vault` — opaque
#[verifier::external_body]
pub struct Vault { _p: () }
impl View for Vault { type V = VaultG; uninterp spec fn view(&self) -> VaultG; }
/// `encode(&vault)` as a function (prelude/vault_secret.rs `enc_Vault`)
pub uninterp spec fn enc_vault(v: VaultG) -> Seq<u8>;
impl Vault {
    /// vault.rs:872 `&self.header.summary.id`
    #[verifier::external_body]
    pub fn id(&self) -> (r: &VaultId) ensures r@ == self@.id, { unimplemented!() }
    /// vault.rs `summary()`: `&self.header.summary` — id, name and flags of the vault
    #[verifier::external_body]
    pub fn summary(&self) -> (r: &Summary)
        ensures r.sid() == self@.id && r.sname() == self@.head.name && r.sflags() == self@.head.flags && r.scipher() == self.vcipher() && r.skdf() == self.vkdf(),
    { unimplemented!() }
    /// cipher and key derivation function of the vault (header summary)
    pub uninterp spec fn vcipher(&self) -> Cipher;
    pub uninterp spec fn vkdf(&self) -> KeyDerivation;
}
/// `sos_core::crypto::Cipher` / `KeyDerivation` — opaque, Copy, Default
#[verifier::external_body]
#[derive(Clone, Copy)]
pub struct Cipher { _p: () }
#[verifier::external_body]
#[derive(Clone, Copy)]
pub struct KeyDerivation { _p: () }
impl Default for Cipher { #[verifier::external_body] fn default() -> (r: Cipher) ensures r == default_cipher(), { unimplemented!() } }
/// `impl Default for Cipher` / `KeyDerivation` (crates/core/src/crypto): the default algorithms, as values
pub uninterp spec fn default_cipher() -> Cipher;
pub uninterp spec fn default_kdf() -> KeyDerivation;
impl Default for KeyDerivation { #[verifier::external_body] fn default() -> (r: KeyDerivation) ensures r == default_kdf(), { unimplemented!() } }
/// version, cipher and kdf of a summary
#[verifier::external_body]
pub ghost struct SumRest { _p: () }
impl Summary {
    pub uninterp spec fn srest(&self) -> SumRest;
    pub uninterp spec fn scipher(&self) -> Cipher;
    pub uninterp spec fn skdf(&self) -> KeyDerivation;
    /// vault.rs `Summary::cipher` / `kdf`: `&self.cipher` / `&self.kdf`
    #[verifier::external_body]
    pub fn cipher(&self) -> (r: &Cipher) ensures *r == self.scipher(), { unimplemented!() }
    #[verifier::external_body]
    pub fn kdf(&self) -> (r: &KeyDerivation) ensures *r == self.skdf(), { unimplemented!() }
    /// vault.rs:268 `Summary::set_name`: `self.name = name;`
    #[verifier::external_body]
    pub fn set_name(&mut self, name: String)
        ensures final(self).sname() == name@ && final(self).sid() == old(self).sid() && final(self).sflags() == old(self).sflags() && final(self).srest() == old(self).srest(),
    { unimplemented!() }
    /// vault.rs `Summary::flags_mut`: `&mut self.flags`
    #[verifier::external_body]
    pub fn flags_mut(&mut self) -> (r: &mut VaultFlags)
        ensures r.b == old(self).sflags() && final(self).sflags() == final(r).b && final(self).sid() == old(self).sid() && final(self).sname() == old(self).sname() && final(self).srest() == old(self).srest(),
    { unimplemented!() }
}
/// `secrecy::SecretString` — opaque
#[verifier::external_body]
pub struct SecretString { _p: () }
impl Clone for SecretString { #[verifier::external_body] fn clone(&self) -> (r: SecretString) ensures r == *self, { unimplemented!() } }
/// `age::x25519::Identity` — opaque
#[verifier::external_body]
pub struct AgeIdentity { _p: () }
/// `sos_core::crypto::AccessKey` (private_key.rs) — real shape
pub enum AccessKey { Password(SecretString), Identity(AgeIdentity) }
impl Clone for AccessKey { #[verifier::external_body] fn clone(&self) -> (r: AccessKey) ensures r == *self, { unimplemented!() } }
impl From<SecretString> for AccessKey {
    /// private_key.rs `impl From<SecretString> for AccessKey`: `AccessKey::Password(value)`
    #[verifier::external_body]
    fn from(value: SecretString) -> (r: AccessKey) ensures r == AccessKey::Password(value), { unimplemented!() }
}
/// `sos_password::Error` -> client error
pub struct PasswordError { pub _p: () }
#[verifier::external]
impl core::fmt::Debug for PasswordError { fn fmt(&self, f: &mut core::fmt::Formatter<'_>) -> core::fmt::Result { Ok(()) } }
impl From<PasswordError> for ClientError { #[verifier::external_body] fn from(_e: PasswordError) -> ClientError { ClientError::Other } }
/// `sos_password::diceware::generate_passphrase` — a random passphrase and its entropy
#[verifier::external_body]
pub fn generate_passphrase() -> (r: core::result::Result<(SecretString, f64), PasswordError>) { unimplemented!() }
/// `sos_vault::Error` -> client error
pub struct VaultError { pub _p: () }
#[verifier::external]
impl core::fmt::Debug for VaultError { fn fmt(&self, f: &mut core::fmt::Formatter<'_>) -> core::fmt::Result { Ok(()) } }
impl From<VaultError> for ClientError { #[verifier::external_body] fn from(_e: VaultError) -> ClientError { ClientError::Other } }
/// `sos_vault::BuilderCredentials` (builder.rs:11) — real shape
pub enum BuilderCredentials<'a> { Password(SecretString, Option<Seed>), Shared { owner: &'a AgeIdentity, recipients: Vec<Recipient>, read_only: bool } }
#[verifier::external_body]
pub struct Seed { _p: () }
#[verifier::external_body]
pub struct Recipient { _p: () }
/// R12 `Option<VaultFlags>::unwrap_or_default()` (core/src/option.rs: the value, or `VaultFlags::default()`); crates/core/src/lib.rs:115
/// `#[derive(Default)]` inside `bitflags!`: the derived default of the `u64` wrapper, no flag set.  (prelude/types.rs derives
/// `Default` too, but Verus gives a derived `Default` no spec.)
#[verifier::external_body]
pub fn flags_unwrap_or_default(o: Option<VaultFlags>) -> (r: VaultFlags)
    ensures r.b == (match o { Some(f) => f.b, None => 0 }),
{ unimplemented!() }
impl VaultBuilder {
    /// builder.rs:49 `new`: a fresh id, the default name, NO description, default flags / cipher / kdf
    #[verifier::external_body]
    pub fn new() -> (r: VaultBuilder)
        ensures r.description is None,
    { unimplemented!() }
    /// R19 the same with `id: VaultId::new_v4()` (builder.rs:52) read under Assumption RNG-UUID: not the id of a folder or summary the storage holds
    #[verifier::external_body]
    pub fn new_fresh(Ghost(st): Ghost<StoreV>) -> (r: VaultBuilder)
        ensures r.description is None, !st.folders.contains_key(r.id@), !has_summary(st.sums, r.id@),
    { unimplemented!() }
    /// builder.rs:98 `build` (read): a vault WITHOUT secrets with the builder's id, name and flags; its meta blob is
    /// `VaultMeta { description: self.description.unwrap_or_default(), .. }` encrypted under the new key (reads back by
    /// Axiom AEAD: module c12 states the same for `convert_folder_cipher`)
    #[verifier::external_body]
    pub fn build<'a>(self, credentials: BuilderCredentials<'a>) -> (r: core::result::Result<Vault, VaultError>)
        ensures r is Ok ==> r->Ok_0@ == (VaultG { id: self.id@, head: FolderHead { name: self.public_name@, flags: self.flags.b,
            desc: match self.description { Some(d) => d@, None => Seq::<char>::empty() } }, secrets: Map::empty() })
            && r->Ok_0.vcipher() == self.cipher && r->Ok_0.vkdf() == self.kdf,
    { unimplemented!() }
}

// ---- sos_backend::Folder: head operations, log, persisted vault -------------------------------------------------------
/// `sos_core::events::EventRecord` — opaque; `ev()` = the event its bytes decode to
#[verifier::external_body]
pub struct EventRecord { _p: () }
impl EventRecord {
    pub uninterp spec fn ev(&self) -> WEv;
    /// the time stamp of the record
    pub uninterp spec fn rtime(&self) -> UtcDateTime;
    /// record.rs:45 `encode_event` (unit log [encode_event_commit_is_hash] + C14)
    #[verifier::external_body]
    pub fn encode_event(event: &WriteEvent) -> (r: core::result::Result<EventRecord, CoreError>)
        ensures r is Ok ==> r->Ok_0.ev() == event@,
    { unimplemented!() }
    /// record.rs `set_time`: the time stamp only
    #[verifier::external_body]
    pub fn set_time(&mut self, time: UtcDateTime)
        ensures final(self).ev() == old(self).ev(), final(self).rtime() == time,
    { unimplemented!() }
}
pub open spec fn rviews(s: Seq<EventRecord>) -> Seq<WEv> { Seq::new(s.len(), |i: int| s[i].ev()) }
impl Clone for UtcDateTime { #[verifier::external_body] fn clone(&self) -> (r: UtcDateTime) ensures r == *self, { unimplemented!() } }
impl Folder {
    /// the folder's event log, as write events with their payload
    pub uninterp spec fn log(&self) -> Seq<WEv>;
    /// the vault file the folder's access point mirrors to (vault/src/access_point.rs:301-: every head edit is applied to
    /// the mirror file first, then to the vault in memory; clientsync [store_kept])
    pub uninterp spec fn stored(&self) -> FolderV;
    /// the access key the folder is unlocked with (`None`: locked) — clientsync `ap().unlocked()` / `ap().kc()`
    pub uninterp spec fn ukey(&self) -> Option<AccessKey>;
    /// the time stamp of the first record of the log
    pub uninterp spec fn first_time(&self) -> UtcDateTime;

    /// folder.rs:294 `rename_folder`: clientsync [one_matching_event] (`did_one(.., SetVaultName(name))`), [store_kept]
    /// (vaultmem [set_name_keeps_inv]); on Err the mirror / vault step failed or the log append failed afterwards
    #[verifier::external_body]
    pub fn rename_folder<S: StrRef>(&mut self, name: S) -> (r: BkResult<WriteEvent>)
        ensures
            final(self).secrets() == old(self).secrets() && final(self).stored().secrets == old(self).stored().secrets,
            r is Ok ==> final(self).head() == (FolderHead { name: name.chars(), ..old(self).head() }) && final(self).stored().head == (FolderHead { name: name.chars(), ..old(self).stored().head })
                && final(self).log() == old(self).log().push(WEv::SetVaultName(name.chars())) && r->Ok_0@ == WEv::SetVaultName(name.chars()),
            r is Err ==> final(self).log() == old(self).log()
                && (final(self).head() == old(self).head() || final(self).head() == (FolderHead { name: name.chars(), ..old(self).head() }))
                && (final(self).stored().head == old(self).stored().head || final(self).stored().head == (FolderHead { name: name.chars(), ..old(self).stored().head })),
    { unimplemented!() }
    /// folder.rs:309 `update_folder_flags`: clientsync [one_matching_event] (SetVaultFlags), [store_kept]
    #[verifier::external_body]
    pub fn update_folder_flags(&mut self, flags: VaultFlags) -> (r: BkResult<WriteEvent>)
        ensures
            final(self).secrets() == old(self).secrets() && final(self).stored().secrets == old(self).stored().secrets,
            r is Ok ==> final(self).head() == (FolderHead { flags: flags.b, ..old(self).head() }) && final(self).stored().head == (FolderHead { flags: flags.b, ..old(self).stored().head })
                && final(self).log() == old(self).log().push(WEv::SetVaultFlags(flags.b)) && r->Ok_0@ == WEv::SetVaultFlags(flags.b),
            r is Err ==> final(self).log() == old(self).log()
                && (final(self).head() == old(self).head() || final(self).head() == (FolderHead { flags: flags.b, ..old(self).head() }))
                && (final(self).stored().head == old(self).stored().head || final(self).stored().head == (FolderHead { flags: flags.b, ..old(self).stored().head })),
    { unimplemented!() }
    /// folder.rs:322 `description`: `access_point.vault_meta()?.description()` (vaultmem [vault_meta_needs_key_that_opens])
    #[verifier::external_body]
    pub fn description(&self) -> (r: BkResult<String>)
        ensures r is Ok ==> r->Ok_0@ == self.head().desc,
    { unimplemented!() }
    /// folder.rs:329 `set_description` -> `set_meta` (:342): clientsync [one_matching_event] for set_meta (SetVaultMeta whose blob
    /// opens to the new meta), [store_kept]; the meta is the old one with the description replaced (date_created kept)
    #[verifier::external_body]
    pub fn set_description<S: StrRef>(&mut self, description: S) -> (r: BkResult<WriteEvent>)
        ensures
            final(self).secrets() == old(self).secrets() && final(self).stored().secrets == old(self).stored().secrets,
            r is Ok ==> final(self).head() == (FolderHead { desc: description.chars(), ..old(self).head() }) && final(self).stored().head == (FolderHead { desc: description.chars(), ..old(self).stored().head })
                && final(self).log() == old(self).log().push(WEv::SetVaultMeta(description.chars())) && r->Ok_0@ == WEv::SetVaultMeta(description.chars()),
            r is Err ==> final(self).log() == old(self).log()
                && (final(self).head() == old(self).head() || final(self).head() == (FolderHead { desc: description.chars(), ..old(self).head() }))
                && (final(self).stored().head == old(self).stored().head || final(self).stored().head == (FolderHead { desc: description.chars(), ..old(self).stored().head })),
    { unimplemented!() }
    /// folder.rs:215 `unlock`: the access point keeps its vault (vaultmem [unlock_frame]); log and mirror untouched
    #[verifier::external_body]
    pub fn unlock(&mut self, key: &AccessKey) -> (r: BkResult<VaultMeta>)
        ensures final(self)@ == old(self)@ && final(self).log() == old(self).log() && final(self).stored() == old(self).stored(),
            r is Ok ==> final(self).ukey() == Some(*key),
    { unimplemented!() }
    /// folder.rs:383 `clear`: unit log [clear_empties]
    #[verifier::external_body]
    pub fn clear(&mut self) -> (r: BkResult<()>)
        ensures final(self)@ == old(self)@ && final(self).stored() == old(self).stored() && final(self).ukey() == old(self).ukey(), r is Ok ==> final(self).log() == Seq::<WEv>::empty(),
    { unimplemented!() }
    /// folder.rs:373 `apply_records`: unit log [append_exact]
    #[verifier::external_body]
    pub fn apply_records(&mut self, records: Vec<EventRecord>) -> (r: BkResult<()>)
        ensures final(self)@ == old(self)@ && final(self).stored() == old(self).stored() && final(self).ukey() == old(self).ukey(), r is Ok ==> final(self).log() == old(self).log() + rviews(records@) && (old(self).log().len() == 0 && records@.len() > 0 ==> final(self).first_time() == records@[0].rtime()),
    { unimplemented!() }
}
/// `sos_vault::VaultMeta` — opaque
#[verifier::external_body]
pub struct VaultMeta { _p: () }
/// R7b `impl AsRef<str> + Send (+ Sync)`: std meaning at `&str` / `&String` (as in units/clientsync.vrs)
pub trait StrRef {
    spec fn chars(&self) -> Seq<char>;
    fn as_ref(&self) -> (r: &str)
        ensures r@ == self.chars();
}
impl StrRef for &str {
    open spec fn chars(&self) -> Seq<char> { (**self)@ }
    fn as_ref(&self) -> (r: &str) { *self }
}
impl StrRef for &String {
    open spec fn chars(&self) -> Seq<char> { (**self)@ }
    fn as_ref(&self) -> (r: &str) { self.as_str() }
}
/// `sos_reducers::FolderReducer::split` (crates/reducers/src/folder.rs): unit fold [split_head], [split_is_replay] — the head
/// event (CreateVault of the encoded header-only vault), then one CreateSecret per row; for a vault WITHOUT rows the
/// header-only vault is the vault: exactly `CreateVault(encode(vault))`
pub uninterp spec fn split_events(v: VaultG) -> Seq<WEv>;
pub broadcast axiom fn axiom_split_of_empty_vault(v: VaultG)
    requires v.secrets == Map::<Seq<u8>, SecV>::empty(),
    ensures #[trigger] split_events(v) == seq![WEv::CreateVault(enc_vault(v))];
pub struct FolderReducer { pub _p: () }
impl FolderReducer {
    #[verifier::external_body]
    pub fn split(vault: Vault) -> (r: ClResult<(Vault, Vec<WriteEvent>)>)
        ensures r is Ok ==> wviews(r->Ok_0.1@) == split_events(vault@) && r->Ok_0.1@.len() >= 1,
    { unimplemented!() }
}

// ---- account event log ---------------------------------------------------------------------------------------------------
/// `sos_core::events::AccountEvent` (events/account.rs): the variants constructed here + catch-all
pub enum AccountEvent { CreateFolder(VaultId, Vec<u8>), RenameFolder(VaultId, String), DeleteFolder(VaultId), Other }
pub ghost enum AEv { CreateFolder(Seq<u8>, Seq<u8>), RenameFolder(Seq<u8>, Seq<char>), DeleteFolder(Seq<u8>), Other }
impl View for AccountEvent {
    type V = AEv;
    open spec fn view(&self) -> AEv {
        match self { AccountEvent::CreateFolder(id, b) => AEv::CreateFolder(id@, b@), AccountEvent::RenameFolder(id, n) => AEv::RenameFolder(id@, n@),
            AccountEvent::DeleteFolder(id) => AEv::DeleteFolder(id@), AccountEvent::Other => AEv::Other }
    }
}
pub open spec fn aviews(s: Seq<AccountEvent>) -> Seq<AEv> { Seq::new(s.len(), |i: int| s[i]@) }
/// `sos_backend::AccountEventLog` — ghost view: the account events appended so far (unit log `apply` [append_exact])
#[verifier::external_body]
pub struct AccountEventLog { _p: () }
impl AccountEventLog {
    pub uninterp spec fn evs(&self) -> Seq<AEv>;
    #[verifier::external_body]
    pub fn apply(&mut self, events: &[AccountEvent]) -> (r: BkResult<()>)
        ensures r is Ok ==> final(self).evs() == old(self).evs() + aviews(events@), r is Err ==> final(self).evs() == old(self).evs(),
    { unimplemented!() }
}
/// R9 `Arc<RwLock<T>>` lent as `&mut`
pub struct VRwLock<T> { pub inner: T }
impl<T> VRwLock<T> {
    #[verifier::external_body]
    pub fn write(&mut self) -> (g: &mut T)
        ensures *g == old(self).inner, final(self).inner == *final(g),
    { &mut self.inner }
}
/// `core::slice::from_ref`: specified once per crate in prelude/account_c12.rs (`r@ == seq![*e]`)
/// `sos_login::Error` -> client error
pub struct LoginError { pub _p: () }
#[verifier::external]
impl core::fmt::Debug for LoginError { fn fmt(&self, f: &mut core::fmt::Formatter<'_>) -> core::fmt::Result { Ok(()) } }
impl From<LoginError> for ClientError { #[verifier::external_body] fn from(_e: LoginError) -> ClientError { ClientError::Other } }
/// `sos_login::IdentityFolder` — the identity vault of the signed-in user
#[verifier::external_body]
pub struct IdentityFolder { _p: () }
impl IdentityFolder {
    pub uninterp spec fn fsum(&self) -> Summary;
    /// crates/login/src/identity_folder.rs `summary`: a clone of the identity vault's summary
    #[verifier::external_body]
    pub fn summary(&self) -> (r: Summary) ensures r == self.fsum(), { unimplemented!() }
}
impl Identity {
    /// the saved folder passwords
    pub uninterp spec fn keys(&self) -> Map<Seq<u8>, AccessKey>;
    /// identity.rs:237 `save_folder_password`
    #[verifier::external_body]
    pub fn save_folder_password(&mut self, folder_id: &VaultId, key: AccessKey) -> (r: core::result::Result<(), LoginError>)
        ensures r is Ok ==> final(self).keys() == old(self).keys().insert(folder_id@, key),
    { unimplemented!() }
    /// identity.rs `identity`: Err unless signed in
    #[verifier::external_body]
    pub fn identity(&self) -> (r: core::result::Result<&IdentityFolder, LoginError>)
        ensures r is Ok ==> r->Ok_0.fsum() == self.login_sum(),
    { unimplemented!() }
    /// the summary of the user's identity (login) vault
    pub uninterp spec fn login_sum(&self) -> Summary;
}

// ---- Vec<Summary> helpers ----------------------------------------------------------------------------------------------
/// R12 `summaries.sort()` (`impl Ord for Summary`, vault.rs: by name): a permutation
#[verifier::external_body]
pub fn vsort_summaries(v: &mut Vec<Summary>)
    ensures final(v)@.to_multiset() == old(v)@.to_multiset(), sums_sorted(final(v)@),
{ unimplemented!() }
/// `impl Ord for str`: lexicographic on the bytes
pub uninterp spec fn name_le(a: Seq<char>, b: Seq<char>) -> bool;
/// sorted as `impl Ord for Summary` orders (vault.rs:187: `self.name.cmp(&other.name)`)
pub open spec fn sums_sorted(s: Seq<Summary>) -> bool {
    forall|i: int, j: int| 0 <= i < j < s.len() ==> name_le(#[trigger] s[i].sname(), #[trigger] s[j].sname())
}
/// R12 `$v.iter_mut().find(|f| $body)` on `&mut Vec<Summary>` (core `IterMut` + `Iterator::find`; the closure reads the
/// element): a mutable reference to the FIRST element the closure accepts; what is written through it is that element's
/// new value, nothing else changes
#[verifier::external_body]
pub fn vfind_mut<'a, F: Fn(&Summary) -> bool>(v: &'a mut Vec<Summary>, p: F) -> (r: Option<&'a mut Summary>)
    requires forall|s: &Summary| #[trigger] p.requires((s,)),
    ensures
        match r {
            Some(x) => exists|i: int| #![trigger old(v)@[i]] 0 <= i < old(v)@.len() && p.ensures((&old(v)@[i],), true)
                && (forall|j: int| #![trigger old(v)@[j]] 0 <= j < i ==> p.ensures((&old(v)@[j],), false))
                && *x == old(v)@[i] && final(v)@ == old(v)@.update(i, *final(x)),
            None => (forall|j: int| #![trigger old(v)@[j]] 0 <= j < old(v)@.len() ==> p.ensures((&old(v)@[j],), false)) && final(v)@ == old(v)@,
        },
{ unimplemented!() }
/// R12 `$v.iter().position(|s| $body)` on `&Vec<Summary>` (core `Iterator::position`): the index of the first element the
/// closure accepts
#[verifier::external_body]
pub fn vposition<F: Fn(&Summary) -> bool>(v: &Vec<Summary>, p: F) -> (r: Option<usize>)
    requires forall|s: &Summary| #[trigger] p.requires((s,)),
    ensures
        match r {
            Some(i) => i < v@.len() && p.ensures((&v@[i as int],), true) && (forall|j: int| #![trigger v@[j]] 0 <= j < i ==> p.ensures((&v@[j],), false)),
            None => forall|j: int| #![trigger v@[j]] 0 <= j < v@.len() ==> p.ensures((&v@[j],), false),
        },
{ unimplemented!() }
/// R12 `folders.sort_by(|a, b| a.name().cmp(b.name()))`: a permutation (sorted by name)
#[verifier::external_body]
pub fn vsort_by_name(v: &mut Vec<Summary>)
    ensures final(v)@.to_multiset() == old(v)@.to_multiset(), sums_sorted(final(v)@),
{ unimplemented!() }
/// `<[Summary]>::to_vec`: clones every element
#[verifier::external_body]
pub fn summaries_to_vec(s: &[Summary]) -> (r: Vec<Summary>)
    ensures r@ == s@,
{ unimplemented!() }
/// R12 `records.get_mut(0)` on a `Vec<EventRecord>` (`<[T]>::get_mut`): the first element, if any, lent mutably
#[verifier::external_body]
pub fn vec_first_mut(v: &mut Vec<EventRecord>) -> (r: Option<&mut EventRecord>)
    ensures
        r is Some <==> old(v)@.len() > 0,
        r matches Some(x) ==> *x == old(v)@[0] && final(v)@ == old(v)@.update(0, *final(x)),
        r is None ==> final(v)@ == old(v)@,
{ unimplemented!() }
impl From<(&AccountId, &AccountEvent)> for AuditEvent {
    /// crates/audit/src/lib.rs `impl From<(&AccountId, &AccountEvent)> for AuditEvent`: a record
    #[verifier::external_body]
    fn from(value: (&AccountId, &AccountEvent)) -> (r: AuditEvent) { unimplemented!() }
}
/// R12c (global rewrite of the composer): `Vec::with_capacity(n)`.  Same result as std.  The allocation bound of C15
/// ([alloc_proportional], prelude/base.rs) is not an obligation of this unit: here `n` is the length of a `Vec` already in memory
pub fn vec_with_capacity_checked<T>(n: usize) -> (v: Vec<T>)
    ensures v@.len() == 0,
{
    Vec::with_capacity(n)
}
/// `sos_login::DelegatedAccess` (crates/login/src/delegated_access.rs): the default method used by `create_folder`
pub trait DelegatedAccess {
    /// delegated_access.rs:36 `generate_folder_password`: a random diceware passphrase
    fn generate_folder_password(&self) -> (r: core::result::Result<SecretString, AccountError>);
}
impl DelegatedAccess for LocalAccount {
    #[verifier::external_body]
    fn generate_folder_password(&self) -> (r: core::result::Result<SecretString, AccountError>) { unimplemented!() }
}
impl From<LoginError> for AccountError { #[verifier::external_body] fn from(_e: LoginError) -> AccountError { AccountError::Other } }
