// ===========================================================================
// prelude/secretcodec_types.rs — dependency stand-ins of the unit `secretcodec`
// (crates/vault/src/encoding/secret.rs).  Included inside `mod pre`.  Every
// `external_body` / `axiom` / `uninterp` here is an ASSUMPTION.
// ===========================================================================

/// view of `uuid::Uuid` (struct in prelude/types.rs): its 16 bytes
impl View for Uuid {
    type V = Seq<u8>;
    open spec fn view(&self) -> Seq<u8> { self.0@ }
}

// ---- errors that are only constructed -----------------------------------------
/// `sos_vault::Error` (crates/vault/src/error.rs, a thiserror enum): the
/// variants constructed by the extracted code.
#[derive(Debug)]
pub enum VaultError {
    UnknownSecretKind(u8),
    UnknownIdentityKind(u8),
    InvalidSecretFlags,
    InvalidX25519Identity(String),
}
pub type VResult<T> = core::result::Result<T, VaultError>;

// ---- bitflags! { struct SecretFlags: u32 } (crates/vault/src/secret.rs:31) --------
/// code behind a macro; stand-in with the macro's documented meaning:
/// from_bits accepts exactly the values whose set bits are all defined flags
/// (bit 0, VERIFY).
#[derive(Clone, Copy, Default)]
pub struct SecretFlags { pub b: u32 }
pub spec const SECRET_FLAGS_ALL: u32 = 0x1;
impl SecretFlags {
    /// Assumed type invariant: a SecretFlags value holds defined bits only
    /// (from_bits_retain is not used in /repo).
    #[verifier::external_body]
    pub fn bits(&self) -> (r: u32)
        ensures r == self.b, (r & !SECRET_FLAGS_ALL) == 0,
    { self.b }
    #[verifier::external_body]
    pub fn from_bits(x: u32) -> (r: Option<SecretFlags>)
        ensures
            r.is_some() <==> (x & !SECRET_FLAGS_ALL) == 0,
            r.is_some() ==> r.unwrap().b == x,
    { if x & !0x1 == 0 { Some(SecretFlags { b: x }) } else { None } }
}

// ---- std::collections::HashSet<T> ---------------------------------------------------
/// std HashSet<T, RandomState>.  View: the (finite, vstd `Set`) set of element views.  The
/// ITERATION ORDER is a further, uninterpreted attribute of the exec value
/// (`order`): it depends on the per-instance random hasher keys and on the
/// insertion history, not on the set of elements alone.
#[verifier::external_body]
#[verifier::reject_recursive_types(T)]
pub struct HashSet<T> { _p: core::marker::PhantomData<T> }
impl<T: View> View for HashSet<T> {
    type V = Set<T::V>;
    uninterp spec fn view(&self) -> Set<T::V>;
}
impl<T: View> HashSet<T> {
    /// the element views in the order `iter()` yields them
    pub uninterp spec fn order(&self) -> Seq<T::V>;
}
/// every element exactly once
pub broadcast axiom fn axiom_hashset_order<T: View>(s: HashSet<T>)
    ensures (#[trigger] s.order()).no_duplicates(), s.order().to_set() == s@;

impl<T: View> Default for HashSet<T> {
    #[verifier::external_body]
    fn default() -> (r: Self)
        ensures r@ == Set::<T::V>::empty(),
    { unimplemented!() }
}
impl<T: View> HashSet<T> {
    /// std `HashSet::new`: empty
    #[verifier::external_body]
    pub fn new() -> (r: Self)
        ensures r@ == Set::<T::V>::empty(),
    { unimplemented!() }
    /// std `HashSet::contains`
    #[verifier::external_body]
    pub fn contains(&self, value: &T) -> (r: bool)
        ensures r == self@.contains(value@),
    { unimplemented!() }
    /// std `HashSet::is_empty`
    #[verifier::external_body]
    pub fn is_empty(&self) -> (r: bool)
        ensures r == (self.order().len() == 0),
    { unimplemented!() }
    /// std `HashSet::remove`
    #[verifier::external_body]
    pub fn remove(&mut self, value: &T) -> (r: bool)
        ensures final(self)@ == old(self)@.remove(value@), r == old(self)@.contains(value@),
    { unimplemented!() }
    /// std `HashSet::insert`: adds the value, keeps an equal one already present
    #[verifier::external_body]
    pub fn insert(&mut self, value: T) -> (r: bool)
        ensures final(self)@ == old(self)@.insert(value@), r == !old(self)@.contains(value@),
    { unimplemented!() }
    /// number of elements
    #[verifier::external_body]
    pub fn len(&self) -> (r: usize)
        ensures r == self.order().len(),
    { unimplemented!() }
}
/// R12: `$s.iter().collect::<Vec<_>>()` on a HashSet: the element references in iteration order
#[verifier::external_body]
pub fn hashset_refs<'a, T: View>(s: &'a HashSet<T>) -> (r: Vec<&'a T>)
    ensures ref_views(r@) == s.order(),
{ unimplemented!() }
pub open spec fn ref_views<'a, T: View>(s: Seq<&'a T>) -> Seq<T::V> {
    Seq::new(s.len(), |i: int| (*s[i])@)
}
/// `std::collections::hash_set::Iter<'a, T>`
#[verifier::external_body]
#[verifier::reject_recursive_types(T)]
pub struct HashSetIter<'a, T> { _p: core::marker::PhantomData<&'a T> }
impl<'a, T> HashSetIter<'a, T> {
    pub uninterp spec fn rest(&self) -> Seq<&'a T>;
}
impl<'a, T> Iterator for HashSetIter<'a, T> {
    type Item = &'a T;
    #[verifier::external_body]
    fn next(&mut self) -> (r: Option<&'a T>)
    { unimplemented!() }
}
impl<'a, T> vstd::std_specs::iter::IteratorSpecImpl for HashSetIter<'a, T> {
    open spec fn obeys_prophetic_iter_laws(&self) -> bool { true }
    #[verifier::prophetic]
    open spec fn remaining(&self) -> Seq<&'a T> { self.rest() }
    #[verifier::prophetic]
    open spec fn will_return_none(&self) -> bool { true }
    open spec fn decrease(&self) -> Option<nat> { Some(self.rest().len()) }
    open spec fn peek(&self, i: int) -> Option<&'a T> {
        if 0 <= i < self.rest().len() { Some(self.rest()[i]) } else { None }
    }
}
impl<'a, T: View> IntoIterator for &'a HashSet<T> {
    type Item = &'a T;
    type IntoIter = HashSetIter<'a, T>;
    /// `impl IntoIterator for &HashSet`: `self.iter()`
    #[verifier::external_body]
    fn into_iter(self) -> (r: HashSetIter<'a, T>)
        ensures ref_views(r.rest()) == self.order(),
    { unimplemented!() }
}

// ---- urn::Urn (urn-0.7.0 src/owned.rs) ---------------------------------------------
/// View: the URN text (`AsRef<str>` / Display).  `FromStr` validates and
/// NORMALISES (lower-cases scheme and NID): `urn_parse` is uninterpreted.
#[verifier::external_body]
pub struct Urn { _p: () }
impl View for Urn {
    type V = Seq<char>;
    uninterp spec fn view(&self) -> Seq<char>;
}
pub uninterp spec fn urn_parse(s: Seq<char>) -> Option<Seq<char>>;
/// Assumption URN: the text of a Urn value is in normal form — parsing it
/// gives the same Urn back (owned.rs `FromStr`/`Display`).
pub broadcast axiom fn axiom_urn_canonical(u: Urn)
    ensures #[trigger] urn_parse(u@) == Some(u@);
impl StrLike for &Urn { open spec fn chars(&self) -> Seq<char> { (*self)@ } }
#[derive(Debug)]
pub struct UrnError { pub _p: () }
/// R12: `$s.parse()` with target `Urn`
#[verifier::external_body]
pub fn parse_urn(s: &String) -> (r: core::result::Result<Urn, UrnError>)
    ensures r.is_ok() <==> urn_parse(s@).is_some(), r.is_ok() ==> Some(r.unwrap()@) == urn_parse(s@),
{ unimplemented!() }
/// R12: `$s.parse()` with target `String` (`impl FromStr for String`, Err = Infallible)
#[derive(Debug)]
pub struct Infallible { pub _p: () }
#[verifier::external_body]
pub fn parse_string(s: &String) -> (r: core::result::Result<String, Infallible>)
    ensures r.is_ok(), r.unwrap()@ == s@,
{ unimplemented!() }

// ---- secrecy::SecretBox<Vec<u8>> (secrecy-0.10.3 src/lib.rs) -------------------------
/// `SecretBox<S>`: a `Box<S>` that is zeroized on drop; `expose_secret` is
/// `self.inner_secret.as_ref()`.
pub struct SecretBox<S> { pub inner: Box<S> }
impl<S> SecretBox<S> {
    pub fn new(b: Box<S>) -> (r: SecretBox<S>)
        ensures r.inner == b,
    { SecretBox { inner: b } }
    pub fn expose_secret(&self) -> (r: &S)
        ensures *r == *self.inner,
    { &*self.inner }
}

// ---- `impl Ord for String` / `<[T]>::sort` -------------------------------------------------------
/// `String::cmp` (lexicographic comparison of the UTF-8 bytes), modelled as an
/// UNINTERPRETED relation on the character sequences.  Assumption ORD: it is
/// a strict total order (irreflexive, transitive, any two different strings
/// are comparable) — the `Ord` contract of std.
pub uninterp spec fn str_lt(a: Seq<char>, b: Seq<char>) -> bool;
pub axiom fn axiom_str_lt_total(a: Seq<char>, b: Seq<char>)
    ensures str_lt(a, b) || a == b || str_lt(b, a), !(str_lt(a, b) && str_lt(b, a)), !str_lt(a, a);
pub axiom fn axiom_str_lt_trans(a: Seq<char>, b: Seq<char>, c: Seq<char>)
    requires str_lt(a, b), str_lt(b, c),
    ensures str_lt(a, c);
pub open spec fn str_le(a: Seq<char>, b: Seq<char>) -> bool { a == b || str_lt(a, b) }
pub open spec fn sorted_strs(o: Seq<Seq<char>>) -> bool {
    forall|i: int, j: int| 0 <= i < j < o.len() ==> str_le(#[trigger] o[i], #[trigger] o[j])
}
/// R12: `$v.sort()` on a `Vec<&String>` (`<[T]>::sort` with `Ord for &String` =
/// `Ord for String`): the result is sorted and is a permutation of the input.
/// Of "permutation" the contract states the consequences that are used: same
/// length, same elements, no element duplicated that was not.
#[verifier::external_body]
pub fn sort_string_refs(v: &mut Vec<&String>)
    ensures
        sorted_strs(ref_views(final(v)@)),
        final(v)@.len() == old(v)@.len(),
        forall|x: Seq<char>| ref_views(final(v)@).contains(x) <==> ref_views(old(v)@).contains(x),
        ref_views(old(v)@).no_duplicates() ==> ref_views(final(v)@).no_duplicates(),
{ unimplemented!() }
