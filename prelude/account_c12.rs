// ===========================================================================
// prelude/account_c12.rs — stand-ins of unit `account`, module `c12` (compaction and
// password change orchestration: crates/backend/src/compact.rs, crates/storage/client/src/
// traits.rs compact_folder / refresh_vault / reduce_event_log / update_vault / change_password).
// Vocabulary: unit vaultmem's (prelude/vault_core.rs, vault_crypto.rs, vault_secret.rs and the spec
// text copied from units/vaultmem.vrs) and unit fold's `step` / `replay` restated over it.
// The contracts are the labels PROVED in the units named at each stand-in (or weaker).
// Everything `external_body` / `uninterp` / `axiom` / bodiless trait method contract here is an
// ASSUMPTION; each names the source that was read.
// Included at top level inside `mod kpre { use super::*; .. }` of module c12.
// ===========================================================================

// ---- error types ---------------------------------------------------------------------------
/// `sos_backend::Error` — opaque
pub struct BackendError { pub _p: () }
/// `sos_backend::StorageError`: the variant constructed here + catch-all
pub enum StorageError { FolderNotFound(VaultId), Other }
/// `sos_core::AuthenticationError`: the variant constructed here + catch-all (prelude/vault_types.rs has
/// the variants vaultmem constructs; R15 rename `AuthenticationError` -> `AuthnError` in this module)
pub enum AuthnError { NotAuthenticated, Other }
/// `sos_client_storage::Error` — opaque + the `#[from]` wrappers met on the `?` paths
pub struct ClientError { pub _p: () }
pub type ClResult<T> = core::result::Result<T, ClientError>;
pub type BkResult<T> = core::result::Result<T, BackendError>;
#[verifier::external]
impl core::fmt::Debug for BackendError { fn fmt(&self, f: &mut core::fmt::Formatter<'_>) -> core::fmt::Result { Ok(()) } }
#[verifier::external]
impl core::fmt::Debug for StorageError { fn fmt(&self, f: &mut core::fmt::Formatter<'_>) -> core::fmt::Result { Ok(()) } }
#[verifier::external]
impl core::fmt::Debug for AuthnError { fn fmt(&self, f: &mut core::fmt::Formatter<'_>) -> core::fmt::Result { Ok(()) } }
#[verifier::external]
impl core::fmt::Debug for ClientError { fn fmt(&self, f: &mut core::fmt::Formatter<'_>) -> core::fmt::Result { Ok(()) } }
impl From<VaultError> for BackendError { #[verifier::external_body] fn from(_e: VaultError) -> BackendError { BackendError { _p: () } } }
impl From<CoreError> for BackendError { #[verifier::external_body] fn from(_e: CoreError) -> BackendError { BackendError { _p: () } } }
impl From<Error> for BackendError { /** `#[from] std::io::Error` */ #[verifier::external_body] fn from(_e: Error) -> BackendError { BackendError { _p: () } } }
impl From<BackendError> for ClientError { #[verifier::external_body] fn from(_e: BackendError) -> ClientError { ClientError { _p: () } } }
impl From<VaultError> for ClientError { #[verifier::external_body] fn from(_e: VaultError) -> ClientError { ClientError { _p: () } } }
impl From<CoreError> for ClientError { #[verifier::external_body] fn from(_e: CoreError) -> ClientError { ClientError { _p: () } } }
impl From<StorageError> for ClientError { #[verifier::external_body] fn from(_e: StorageError) -> ClientError { ClientError { _p: () } } }
impl From<AuthnError> for ClientError { #[verifier::external_body] fn from(_e: AuthnError) -> ClientError { ClientError { _p: () } } }
/// `sos_login::Error` -> client error (`#[from]`)
pub struct LoginError { pub _p: () }
#[verifier::external]
impl core::fmt::Debug for LoginError { fn fmt(&self, f: &mut core::fmt::Formatter<'_>) -> core::fmt::Result { Ok(()) } }
impl From<LoginError> for ClientError { #[verifier::external_body] fn from(_e: LoginError) -> ClientError { ClientError { _p: () } } }

/// `uuid::Uuid` equality: derived `PartialEq` on the 16 bytes
impl PartialEq for Uuid {
    #[verifier::external_body]
    fn eq(&self, other: &Self) -> (r: bool)
        ensures r == (self@ == other@),
    { self.0 == other.0 }
}
impl vstd::std_specs::cmp::PartialEqSpecImpl for Uuid {
    open spec fn obeys_eq_spec() -> bool { true }
    open spec fn eq_spec(&self, other: &Uuid) -> bool { self@ == other@ }
}

/// `core::slice::from_ref` (core/src/slice/raw.rs): "Converts a reference to T into a slice of length 1"
pub assume_specification<T> [std::slice::from_ref] (e: &T) -> (r: &[T])
    ensures r@ == seq![*e];

// ---- vault codec as functions (unit fold: `vault_dec`; prelude/vault_secret.rs: `enc_Vault`) -------
/// the vault decoding function on a whole buffer
pub uninterp spec fn dec_Vault(b: Seq<u8>) -> Option<VaultV>;
impl Decoded for Vault {
    open spec fn dec_view(b: Seq<u8>) -> Option<VaultV> { dec_Vault(b) }
}
/// **Assumption VAULT-RT** (as in prelude/fold_vault.rs `axiom_vault_head_roundtrip`): what `encode`
/// produced for a vault without rows decodes to the same vault
pub broadcast axiom fn axiom_vault_head_roundtrip(v: VaultV)
    requires v.secrets.len() == 0,
    ensures #[trigger] dec_Vault(enc_Vault(v)) == Some(v);
/// `contents.data` is an IndexMap: one row per id (prelude/vault_types.rs axiom_indexmap_distinct)
pub proof fn lemma_vault_distinct(v: Vault)
    ensures m_distinct(v@.secrets),
{
    broadcast use axiom_indexmap_distinct;
}

// ---- locks (R9), as in prelude/clientsync_ap.rs ------------------------------------------------
/// R9: `Arc<tokio::sync::RwLock<T>>` — `read()` gives `&T`, `write()` gives `&mut T`.  Assumption: nobody
/// else mutates `T` while the caller holds the guard (what happens between two acquisitions is C09).
pub struct VRwLock<T> { pub inner: T }
impl<T> VRwLock<T> {
    #[verifier::external_body]
    pub fn write(&mut self) -> (g: &mut T)
        ensures *g == old(self).inner, final(self).inner == *final(g),
    { &mut self.inner }
    #[verifier::external_body]
    pub fn read(&self) -> (g: &T)
        ensures *g == self.inner,
    { &self.inner }
}
/// R9: `Arc<tokio::sync::Mutex<T>>` — `lock()` gives `&mut T` (same assumption)
pub struct VMutex<T> { pub inner: T }
impl<T> VMutex<T> {
    #[verifier::external_body]
    pub fn lock(&mut self) -> (g: &mut T)
        ensures *g == old(self).inner, final(self).inner == *final(g),
    { &mut self.inner }
}

// ---- event log (crates/filesystem/src/event_log.rs behind sos_backend::FolderEventLog) ----------
/// `sos_core::commit::CommitProof` — opaque
#[verifier::external_body]
pub struct CommitProof { _p: () }
/// THE head proof of the commit tree of a log that holds exactly these events: leaf i is the commit hash
/// `H(enc(event i))` (unit log [encode_event_commit_is_hash], [append_exact]: tree leaves == commits of the rows),
/// the proof is `CommitTree::head()` (unit tree).  A function of the events.
pub uninterp spec fn head_proof(evs: Seq<WriteEventV>) -> CommitProof;
/// `sos_core::commit::CommitTree` of an event log
#[verifier::external_body]
pub struct CommitTree { _p: () }
impl CommitTree {
    /// the events whose commit hashes are the leaves
    pub uninterp spec fn of(&self) -> Seq<WriteEventV>;
    /// crates/core/src/commit/tree.rs:79 `head`: unit tree [head_err_iff_empty], [head_is_proof_of_last_leaf] — Err iff the
    /// tree has no leaf, otherwise the proof of the last leaf, i.e. THE head proof of the log
    #[verifier::external_body]
    pub fn head(&self) -> (r: core::result::Result<CommitProof, CoreError>)
        ensures
            r is Err <==> self.of().len() == 0,
            r is Ok ==> r->Ok_0 == head_proof(self.of()),
    { unimplemented!() }
}
pub open spec fn wviews(s: Seq<WriteEvent>) -> Seq<WriteEventV> { Seq::new(s.len(), |i: int| s[i]@) }
/// `sos_core::events::EventRecord` — opaque; `ev()` = the event its bytes decode to
#[verifier::external_body]
pub struct EventRecord { _p: () }
impl EventRecord {
    pub uninterp spec fn ev(&self) -> WriteEventV;
    /// crates/core/src/events/record.rs:45 `encode_event`: unit log [encode_event_commit_is_hash] + C14 (unit codec:
    /// a WriteEvent decodes to itself)
    #[verifier::external_body]
    pub fn encode_event(event: &WriteEvent) -> (r: core::result::Result<EventRecord, CoreError>)
        ensures r is Ok ==> r->Ok_0.ev() == event@,
    { unimplemented!() }
}
pub open spec fn rviews(s: Seq<EventRecord>) -> Seq<WriteEventV> { Seq::new(s.len(), |i: int| s[i].ev()) }
/// `sos_core::events::patch::Patch<WriteEvent>`
#[verifier::external_body]
pub struct FolderPatch { _p: () }
impl FolderPatch {
    pub uninterp spec fn evs(&self) -> Seq<WriteEventV>;
    /// patch.rs `Patch::new(records)`
    #[verifier::external_body]
    pub fn new(records: Vec<EventRecord>) -> (r: FolderPatch)
        ensures r.evs() == rviews(records@),
    { unimplemented!() }
}
/// `Patch<T>` at `T = WriteEvent` (name resolution of `Patch::new(records)`)
pub type Patch = FolderPatch;
/// `sos_core::events::patch::FolderDiff` = `Diff<WriteEvent>` { last_commit, patch, checkpoint }
pub struct FolderDiff { pub last_commit: Option<CommitHash>, pub patch: FolderPatch, pub checkpoint: CommitProof }
impl FolderDiff {
    /// patch.rs `Diff::new(patch, checkpoint, last_commit)`
    pub fn new(patch: FolderPatch, checkpoint: CommitProof, last_commit: Option<CommitHash>) -> (r: FolderDiff)
        ensures r.patch == patch && r.checkpoint == checkpoint && r.last_commit == last_commit,
    { FolderDiff { last_commit, patch, checkpoint } }
}
/// `sos_core::events::EventLogType`: the variant constructed here + catch-all
pub enum EventLogType { Folder(VaultId), Other }
/// `sos_core::AccountId` — opaque, Copy
#[verifier::external_body]
#[derive(Clone, Copy)]
pub struct AccountId { _p: () }
/// `tempfile::NamedTempFile` — opaque
#[verifier::external_body]
pub struct NamedTempFile { _p: () }
/// `std::path::Path` of the temp file — opaque
#[verifier::external_body]
pub struct TempPath { _p: () }
impl NamedTempFile {
    /// tempfile-3: a fresh empty file
    #[verifier::external_body]
    pub fn new() -> (r: core::result::Result<NamedTempFile, Error>) { unimplemented!() }
    #[verifier::external_body]
    pub fn path(&self) -> (r: &TempPath) { unimplemented!() }
    #[verifier::external_body]
    pub fn close(self) -> (r: core::result::Result<(), Error>) { unimplemented!() }
}
/// `sos_filesystem::FolderEventLog<E>` (crates/filesystem/src/event_log.rs), the folder log of the
/// file-system backend.  Ghost view: `evs()` = the events of its rows in order.  The contracts are the
/// labels of unit log (`EventLog::*` for FileSystemEventLog), read through "row -> event".
#[verifier::external_body]
pub struct FsFolderEventLog { _p: () }
impl FsFolderEventLog {
    pub uninterp spec fn evs(&self) -> Seq<WriteEventV>;
    pub uninterp spec fn tree_s(&self) -> CommitTree;
    /// FS_INV of unit log: the tree's leaves are the commits of the stored rows
    pub open spec fn inv(&self) -> bool { self.tree_s().of() == self.evs() }
    /// event_log.rs `new_folder(path, account_id, log_type)`: a log over the (empty, fresh) file
    #[verifier::external_body]
    pub fn new_folder(path: &TempPath, account_id: AccountId, log_type: EventLogType) -> (r: BkResult<FsFolderEventLog>)
        ensures r is Ok ==> r->Ok_0.evs().len() == 0 && r->Ok_0.inv(),
    { unimplemented!() }
    /// unit log `apply` [append_exact]: exactly these events appended, tree in step
    #[verifier::external_body]
    pub fn apply(&mut self, events: &[WriteEvent]) -> (r: BkResult<()>)
        ensures
            r is Ok ==> final(self).evs() == old(self).evs() + wviews(events@) && (old(self).inv() ==> final(self).inv()),
    { unimplemented!() }
    /// unit log `clear` [clear_empties]
    #[verifier::external_body]
    pub fn clear(&mut self) -> (r: BkResult<()>)
        ensures r is Ok ==> final(self).evs().len() == 0 && final(self).inv(),
    { unimplemented!() }
    /// event_log.rs `tree`
    #[verifier::external_body]
    pub fn tree(&self) -> (r: &CommitTree)
        ensures *r == self.tree_s(),
    { unimplemented!() }
    /// unit log `replace_all_events` [replace_ok]: on Ok the log is exactly the diff's patch and its head is the
    /// checkpoint; [replace_refused_unchanged]: on Err nothing has changed (both SPECIFIED in unit log; they fail there
    /// for an empty patch / snapshot corner cases: known findings D4, D13)
    #[verifier::external_body]
    pub fn replace_all_events(&mut self, diff: &FolderDiff) -> (r: BkResult<()>)
        ensures
            r is Ok ==> final(self).evs() == diff.patch.evs() && final(self).inv() && diff.checkpoint == head_proof(final(self).evs()),
            r is Err ==> final(self).evs() == old(self).evs(),
    { unimplemented!() }
}

// ---- FolderReducer (crates/reducers/src/folder.rs): labels proved in unit fold ----------------------
/// `sos_reducers::FolderReducer`.  `rv()` = the folder it stands for (unit fold `fview()`), `buf()` = the
/// create-vault buffer it started from (None: nothing reduced)
#[verifier::external_body]
pub struct FolderReducer { _p: () }
impl FolderReducer {
    pub uninterp spec fn buf(&self) -> Option<Seq<u8>>;
    pub uninterp spec fn rv(&self) -> FolderView;
    /// fold [new_fresh]
    #[verifier::external_body]
    pub fn new() -> (r: FolderReducer)
        ensures r.buf() is None,
    { unimplemented!() }
    /// fold [reduce_empty_log], [reduce_starts_with_create], [reduce_is_replay] (a reducer made by `new`)
    #[verifier::external_body]
    pub fn reduce(self, event_log: &FsFolderEventLog) -> (r: VResult<FolderReducer>)
        requires self.buf() is None,
        ensures
            r is Ok && event_log.evs().len() == 0 ==> r->Ok_0.buf() is None,
            r is Ok && event_log.evs().len() > 0 ==> event_log.evs()[0] is CreateVault && r->Ok_0.buf() == Some(event_log.evs()[0]->CreateVault_0)
                && r->Ok_0.rv() == replay(event_log.evs()),
    { unimplemented!() }
    /// fold [compact_nothing_reduced], [compact_shape], [compact_preserves_view] (D7 fixed: flags included).  Last clause:
    /// events[0] is `vault.into_event()` = `CreateVault(enc(head_only(vault)))` (folder.rs:161, prelude/fold_vault.rs
    /// `into_event`), which decodes to a vault without rows by Assumption VAULT-RT — a consequence of fold's trusted base,
    /// not one of its labels
    #[verifier::external_body]
    pub fn compact(self) -> (r: VResult<Vec<WriteEvent>>)
        ensures
            self.buf() is None ==> r is Ok && r->Ok_0@.len() == 0,
            r is Ok && self.buf() is Some ==> r->Ok_0@.len() == 1 + self.rv().secrets.len() && r->Ok_0@[0]@ is CreateVault
                && (forall|i: int| 0 <= i < self.rv().secrets.len() ==> (#[trigger] r->Ok_0@[i + 1])@ == WriteEventV::CreateSecret(self.rv().secrets[i].0, self.rv().secrets[i].1))
                && replay(wviews(r->Ok_0@)) == self.rv()
                && (r->Ok_0@[0]@ matches WriteEventV::CreateVault(b) && (dec_Vault(b) matches Some(d) && d.secrets.len() == 0)),
    { unimplemented!() }
    /// fold [build_ok_iff_decodes], [build_head_applied], [build_secrets_on_head_only_buffer] ([build_view] itself is a
    /// known finding of unit fold for a create-vault buffer that carries rows; only the head-only case is used)
    #[verifier::external_body]
    pub fn build(self, include_secrets: bool) -> (r: VResult<Vault>)
        ensures
            r is Ok && self.buf() is Some ==> dec_Vault(self.buf()->Some_0) is Some && ({ let d = dec_Vault(self.buf()->Some_0)->Some_0;
                r->Ok_0@.head == (HeaderV { summary: SummaryV { name: self.rv().name, flags: self.rv().flags, ..d.head.summary }, meta: self.rv().meta, ..d.head })
                && (include_secrets && d.secrets.len() == 0 ==> r->Ok_0@.secrets == self.rv().secrets) }),
    { unimplemented!() }
}

// ---- the backend access point: labels proved in unit vaultmem -----------------------------------------
/// `sos_vault::VaultMeta` is in prelude/vault_secret.rs.  `sos_backend::AccessPoint` (crates/backend/src/access_point.rs
/// -> crates/vault/src/access_point.rs): `vault()` in memory, `key()` the held private key
#[verifier::external_body]
pub struct AccessPoint { _p: () }
impl AccessPoint {
    pub uninterp spec fn vv(&self) -> VaultV;
    pub uninterp spec fn key(&self) -> Option<PrivateKeyV>;
    /// crates/backend/src/access_point.rs:26 `from_vault` -> vault access_point.rs `AccessPoint::new(vault)`: holds the vault, locked
    #[verifier::external_body]
    pub fn from_vault(vault: Vault) -> (r: AccessPoint)
        ensures r.vv() == vault@ && r.key() is None,
    { unimplemented!() }
    /// `SecretAccess::vault` (vaultmem [vault_is_field])
    #[verifier::external_body]
    pub fn vault(&self) -> (r: &Vault)
        ensures r@ == self.vv(),
    { unimplemented!() }
    /// `self.vault().id()`
    #[verifier::external_body]
    pub fn id(&self) -> (r: &VaultId)
        ensures r.0@ == self.vv().head.summary.id,
    { unimplemented!() }
    /// vaultmem [vault_meta_needs_key_that_opens] + [meta_is_decrypt_of_blob]
    #[verifier::external_body]
    pub fn vault_meta(&self) -> (r: BkResult<VaultMeta>)
        ensures r is Ok ==> self.key() is Some && self.vv().head.meta is Some && meta_of(self.vv(), self.key()->Some_0) == Some(r->Ok_0@),
    { unimplemented!() }
    /// vaultmem [read_is_decrypt_of_stored]
    #[verifier::external_body]
    pub fn read_secret(&self, id: &SecretId) -> (r: BkResult<Option<(SecretMeta, Secret, ReadEvent)>>)
        ensures r is Ok ==> self.key() is Some && (r->Ok_0 is Some <==> m_has(self.vv().secrets, id.0@))
            && (r->Ok_0 matches Some(t) ==> read_spec(self.vv(), self.key()->Some_0, id.0@) == Some((t.0@, t.1@))),
    { unimplemented!() }
    /// vaultmem [create_keeps_inv], [event_is_ciphertext_only], [create_then_read] (symmetric cipher, an id that is not
    /// present): head and key kept, the new row is pushed last and reads back as (meta, secret)
    #[verifier::external_body]
    pub fn create_secret(&mut self, secret_data: &SecretRow) -> (r: BkResult<WriteEvent>)
        ensures
            final(self).key() == old(self).key(),
            r is Ok ==> final(self).vv().head == old(self).vv().head && old(self).key() is Some,
            r is Ok && is_symmetric(old(self).vv().head.summary.cipher) && !m_has(old(self).vv().secrets, secret_data.id.0@) ==> ({
                let n = old(self).vv().secrets.len() as int; let s1 = final(self).vv().secrets;
                s1.len() == n + 1 && s1.take(n) == old(self).vv().secrets && s1[n].0 == secret_data.id.0@
                && read_row(old(self).vv().head.summary.cipher, old(self).key()->Some_0, s1[n].1) == Some((secret_data.meta@, secret_data.secret@)) }),
    { unimplemented!() }
    /// vaultmem [lock_drops_key]
    #[verifier::external_body]
    pub fn lock(&mut self)
        ensures final(self).key() is None && final(self).vv() == old(self).vv(),
    { unimplemented!() }
    /// vaultmem [replace_sets_memory]
    #[verifier::external_body]
    pub fn replace_vault(&mut self, vault: Vault, mirror_changes: bool) -> (r: BkResult<()>)
        ensures
            r is Ok ==> final(self).vv() == vault@ && final(self).key() == old(self).key(),
            r is Err ==> final(self).key() == old(self).key() && (final(self).vv() == old(self).vv() || final(self).vv() == vault@),
    { unimplemented!() }
    /// vaultmem [unlock_only_with_own_key], [unlock_frame], [failed_unlock_leaves_locked]
    #[verifier::external_body]
    pub fn unlock(&mut self, key: &AccessKey) -> (r: BkResult<VaultMeta>)
        ensures
            final(self).vv() == old(self).vv(),
            r is Ok ==> final(self).key() == Some(private_of(old(self).vv(), key@)) && opens(old(self).vv(), private_of(old(self).vv(), key@)),
            r is Err ==> final(self).key() is None || final(self).key() == old(self).key(),
    { unimplemented!() }
}

// ---- account event log, identity ---------------------------------------------------------------------
/// `sos_core::events::AccountEvent`: the variants constructed here + catch-all
pub enum AccountEvent { CompactFolder(VaultId, Vec<u8>), ChangeFolderPassword(VaultId, Vec<u8>), Other }
/// the account event log (`sos_backend::AccountEventLog`): `n()` events appended so far, the last one
#[verifier::external_body]
pub struct AccountEventLog { _p: () }
impl AccountEventLog {
    /// unit log `apply` for the account log: appends; nothing here talks about its content
    #[verifier::external_body]
    pub fn apply(&mut self, events: &[AccountEvent]) -> (r: BkResult<()>) { unimplemented!() }
}
/// `sos_login::Identity` (the authenticated user): the folder passwords it saves (delegated access)
#[verifier::external_body]
pub struct LoginIdentity { _p: () }
impl LoginIdentity {
    /// the saved folder passwords (crates/login/src/identity_folder.rs / identity.rs:237)
    pub uninterp spec fn keys(&self) -> Map<Seq<u8>, AccessKeyV>;
    /// identity.rs:237 `save_folder_password` -> identity_folder.rs: writes a secret holding the key into the
    /// identity vault and caches it; afterwards `find_folder_password(folder_id)` answers `key`
    #[verifier::external_body]
    pub fn save_folder_password(&mut self, folder_id: &VaultId, key: AccessKey) -> (r: core::result::Result<(), LoginError>)
        ensures
            final(self).login_sum() == old(self).login_sum(),
            r is Ok ==> final(self).keys() == old(self).keys().insert(folder_id@, key@),
            r is Err ==> final(self).keys() == old(self).keys() || final(self).keys() == old(self).keys().insert(folder_id@, key@),
    { unimplemented!() }
    /// identity.rs `find_folder_password`
    #[verifier::external_body]
    pub fn find_folder_password(&self, folder_id: &VaultId) -> (r: core::result::Result<Option<AccessKey>, LoginError>)
        ensures r is Ok ==> (match r->Ok_0 { Some(k) => self.keys().contains_key(folder_id@) && self.keys()[folder_id@] == k@, None => !self.keys().contains_key(folder_id@) }),
    { unimplemented!() }
}
/// traits.rs:51 sealing token
#[derive(Clone, Copy)]
pub struct Internal;

// ---- std::collections::HashMap<VaultId, Folder> (as in prelude/account_store.rs) -------------------------
#[verifier::external_body]
#[verifier::reject_recursive_types(K)]
#[verifier::reject_recursive_types(V)]
pub struct HashMap<K, V> { _p: core::marker::PhantomData<(K, V)> }
impl<K: View, V> View for HashMap<K, V> {
    type V = Map<K::V, V>;
    uninterp spec fn view(&self) -> Map<K::V, V>;
}
impl<K: View, V> HashMap<K, V> {
    /// `HashMap::get`
    #[verifier::external_body]
    pub fn get(&self, k: &K) -> (r: Option<&V>)
        ensures r == (if self@.contains_key(k@) { Some(&self@[k@]) } else { None }),
    { unimplemented!() }
    /// `HashMap::contains_key` (keys compared by `Eq`, here: by view)
    #[verifier::external_body]
    pub fn contains_key(&self, k: &K) -> (r: bool) ensures r == self@.contains_key(k@), { unimplemented!() }
    /// `HashMap::insert`: the entry is set, the previous value (if any) handed back
    #[verifier::external_body]
    pub fn insert(&mut self, k: K, v: V) -> (r: Option<V>)
        ensures final(self)@ == old(self)@.insert(k@, v), r is Some <==> old(self)@.contains_key(k@), r is Some ==> r->Some_0 == old(self)@[k@],
    { unimplemented!() }
    /// `HashMap::remove`: the entry is gone, its value (if any) handed back
    #[verifier::external_body]
    pub fn remove(&mut self, k: &K) -> (r: Option<V>)
        ensures final(self)@ == old(self)@.remove(k@), r is Some <==> old(self)@.contains_key(k@), r is Some ==> r->Some_0 == old(self)@[k@],
    { unimplemented!() }
    /// `HashMap::get_mut`
    #[verifier::external_body]
    pub fn get_mut(&mut self, k: &K) -> (r: Option<&mut V>)
        ensures
            r is Some <==> old(self)@.contains_key(k@),
            r matches Some(v) ==> *v == old(self)@[k@] && final(self)@ == old(self)@.insert(k@, *final(v)),
            r is None ==> final(self)@ == old(self)@,
    { unimplemented!() }
}

/// `ChangePassword::build` (crates/vault/src/change_password.rs:95): the contract PROVED in unit vaultmem
/// ([fresh_salt] weakened to "a salt is set" — no draw counter here —, [all_under_new_key],
/// [same_ids_same_plaintexts], [events_shape]), for a password key on a symmetric cipher
pub open spec fn chpw_post(old: VaultV, current_key: AccessKeyV, new_key: AccessKeyV, seed: Option<Seq<u8>>, rk: AccessKeyV, nv: VaultV, ev: Seq<WriteEvent>) -> bool {
    &&& rk == new_key
    &&& ev.len() == 1 + nv.secrets.len() && ev[0]@ == WriteEventV::CreateVault(enc_Vault(head_only(nv)))
    &&& forall|j: int| 0 <= j < nv.secrets.len() ==> (#[trigger] ev[j + 1])@ == WriteEventV::CreateSecret(nv.secrets[j].0, nv.secrets[j].1)
    &&& new_key is Password ==> nv.head.auth.salt is Some && nv.head.auth.seed == seed && nv.head.summary == old.head.summary && nv.head.shared == old.head.shared
    &&& new_key is Password && is_symmetric(old.head.summary.cipher) ==> ({
            let c = nv.head.summary.cipher; let ok = private_of(old, current_key); let nk = private_of(nv, new_key);
            &&& nk is Sym && nk->Sym_0.len() == 32 && nv.secrets.len() == old.secrets.len()
            &&& forall|j: int| 0 <= j < nv.secrets.len() ==> rekeyed(c, ok, nk->Sym_0, old.secrets[j], #[trigger] nv.secrets[j])
            &&& old.head.meta is Some && nv.head.meta is Some && dec_pack(c, ok, old.head.meta->Some_0) is Some
            &&& is_enc(c, nk->Sym_0, dec_pack(c, ok, old.head.meta->Some_0)->Some_0, nv.head.meta->Some_0)
        })
}
impl<'a> ChangePassword<'a> {
    #[verifier::external_body]
    pub fn build(self) -> (r: VResult<(AccessKey, Vault, Vec<WriteEvent>)>)
        ensures r is Ok ==> chpw_post(self.vault@, self.current_key@, self.new_key@, match self.seed { Some(s) => Some(s.0@), None => None }, r->Ok_0.0@, r->Ok_0.1@, r->Ok_0.2@),
    { unimplemented!() }
}

// ---- account layer of module c12 (crates/account/src/local_account.rs) ------------------------------------
/// `sos_account::Error`: the variant constructed here + the `#[from]` wrappers met on the `?` paths
pub enum AccountError { NoFolderPassword(VaultId), Storage(ClientError), Authentication(AuthnError), Login(LoginError), Other }
#[verifier::external]
impl core::fmt::Debug for AccountError { fn fmt(&self, f: &mut core::fmt::Formatter<'_>) -> core::fmt::Result { Ok(()) } }
pub type AcResult<T> = core::result::Result<T, AccountError>;
impl From<ClientError> for AccountError { #[verifier::external_body] fn from(e: ClientError) -> AccountError { AccountError::Storage(e) } }
impl From<BackendError> for AccountError { #[verifier::external_body] fn from(e: BackendError) -> AccountError { AccountError::Other } }
impl From<VaultError> for AccountError { #[verifier::external_body] fn from(e: VaultError) -> AccountError { AccountError::Other } }
impl From<AuthnError> for AccountError { #[verifier::external_body] fn from(e: AuthnError) -> AccountError { AccountError::Authentication(e) } }
impl From<LoginError> for AccountError { #[verifier::external_body] fn from(e: LoginError) -> AccountError { AccountError::Login(e) } }
impl From<CoreError> for AccountError { #[verifier::external_body] fn from(e: CoreError) -> AccountError { AccountError::Other } }
/// `sos_core::Paths`, `sos_backend::BackendTarget` — opaque
#[verifier::external_body]
pub struct Paths { _p: () }
#[verifier::external_body]
pub struct BackendTarget { _p: () }
/// `sos_client_storage::ClientStorage` (storage.rs: every trait method delegates to the backend variant); ghost state `gk()`
#[verifier::external_body]
pub struct ClientStorage { _p: () }
impl ClientStorage {
    pub uninterp spec fn gk(&self) -> KStoreV;
}
impl ClientBaseStorage for ClientStorage {
    open spec fn kst(&self) -> KStoreV { self.gk() }
    #[verifier::external_body]
    fn account_id(&self) -> (r: &AccountId) { unimplemented!() }
    #[verifier::external_body]
    fn guard_authenticated(&self, _t: Internal) -> (r: ClResult<()>) { unimplemented!() }
    #[verifier::external_body]
    fn authenticated_user(&self) -> (r: Option<&LoginIdentity>) { unimplemented!() }
    #[verifier::external_body]
    fn authenticated_user_mut(&mut self) -> (r: Option<&mut LoginIdentity>) { unimplemented!() }
}
impl ClientVaultStorage for ClientStorage {
    #[verifier::external_body]
    fn summaries(&self, _t: Internal) -> (r: &Vec<Summary>) { unimplemented!() }
    #[verifier::external_body]
    fn write_vault(&mut self, vault: &Vault, _t: Internal) -> (r: ClResult<Vec<u8>>) { unimplemented!() }
}
impl ClientFolderStorage for ClientStorage {
    #[verifier::external_body]
    fn folders_mut(&mut self) -> (r: &mut HashMap<VaultId, Folder>) { unimplemented!() }
    #[verifier::external_body]
    fn folder_log(&self, folder_id: &VaultId) -> (r: ClResult<&VRwLock<FolderEventLog>>) { unimplemented!() }
    #[verifier::external_body]
    fn account_log(&mut self) -> (r: ClResult<&mut VRwLock<AccountEventLog>>) { unimplemented!() }
    #[verifier::external_body]
    fn read_vault(&self, id: &VaultId) -> (r: ClResult<Vault>) { unimplemented!() }
    #[verifier::external_body]
    fn read_login_vault(&self) -> (r: ClResult<Vault>) { unimplemented!() }
}
impl ClientAccountStorage for ClientStorage {}

// ---- convert_folder_cipher (crates/account/src/convert.rs) ------------------------------------------------
/// the description a VaultMeta carries (vault.rs:40)
pub uninterp spec fn vm_description(m: VaultMetaV) -> Seq<char>;
impl VaultMeta {
    /// vault.rs:45 `&self.description`
    #[verifier::external_body]
    pub fn description(&self) -> (r: &str)
        ensures r@ == vm_description(self@),
    { unimplemented!() }
}
/// `Option<&Seed>::cloned` (Seed is Copy)
#[verifier::external_body]
pub fn seed_cloned(o: Option<&Seed>) -> (r: Option<Seed>)
    ensures r == (match o { Some(x) => Some(*x), None => None }),
{ unimplemented!() }
impl From<AccessPoint> for Vault {
    /// access_point.rs:181 -> vault access_point.rs `impl From<AccessPoint<E>> for Vault`: the vault held in memory
    #[verifier::external_body]
    fn from(value: AccessPoint) -> (r: Vault)
        ensures r@ == value.vv(),
    { unimplemented!() }
}
/// `sos_vault::BuilderCredentials` (builder.rs:11): the variant constructed here; `Shared { .. }` collapsed
pub enum BuilderCredentials { Password(SecretString, Option<Seed>), Shared }
impl VaultBuilder {
    /// builder.rs:49 `new`: a fresh id, the default name, NO description, default flags / cipher / kdf
    #[verifier::external_body]
    pub fn new() -> (r: VaultBuilder)
        ensures r.description is None,
    { unimplemented!() }
    /// builder.rs:98 `build` (read, not under contract): a default vault with id, name, flags, cipher, kdf from the builder;
    /// `VaultMeta { date_created: now, description: self.description.unwrap_or_default() }` encrypted with the key of
    /// `vault.symmetric(password, seed)` (vaultmem [fresh_salt]: a salt is set, the seed stored) and stored as the
    /// header blob (`encrypt_meta`; reads back by Axiom AEAD).  Ok only for a symmetric cipher (vaultmem
    /// [dispatch_symmetric_only]: `Vault::encrypt` with a symmetric key on X25519 is an error).
    #[verifier::external_body]
    pub fn build(self, credentials: BuilderCredentials) -> (r: VResult<Vault>)
        ensures r is Ok && credentials is Password ==> ({ let v = r->Ok_0@; let pw = credentials->Password_0@;
            &&& v.head.summary.id == self.id.0@ && v.head.summary.name == self.public_name@ && v.head.summary.flags == self.flags.b
            &&& v.head.summary.cipher == self.cipher && v.head.summary.kdf == self.kdf && is_symmetric(self.cipher)
            &&& v.secrets.len() == 0 && v.head.auth.salt is Some && v.head.auth.seed == (match credentials->Password_1 { Some(s) => Some(s.0@), None => None })
            &&& v.head.meta is Some && opens(v, private_of(v, AccessKeyV::Password(pw)))
            &&& meta_of(v, private_of(v, AccessKeyV::Password(pw))) matches Some(m) && vm_description(m) == (match self.description { Some(d) => d@, None => Seq::<char>::empty() })
        }),
    { unimplemented!() }
}
/// the iterator `Vault::keys` returns (vault.rs:805 `self.contents.data.keys()`: indexmap `Keys`, every id once, in order)
#[verifier::external_body]
pub struct VaultKeys<'a> { _p: core::marker::PhantomData<&'a Vault> }
impl<'a> VaultKeys<'a> {
    pub uninterp spec fn rest(&self) -> Seq<&'a Uuid>;
}
impl<'a> Iterator for VaultKeys<'a> {
    type Item = &'a Uuid;
    /// contract inherited from vstd's Iterator specification (`IteratorSpec`)
    #[verifier::external_body]
    fn next(&mut self) -> (r: Option<&'a Uuid>) { unimplemented!() }
}
impl<'a> vstd::std_specs::iter::IteratorSpecImpl for VaultKeys<'a> {
    open spec fn obeys_prophetic_iter_laws(&self) -> bool { true }
    #[verifier::prophetic]
    open spec fn remaining(&self) -> Seq<&'a Uuid> { self.rest() }
    #[verifier::prophetic]
    open spec fn will_return_none(&self) -> bool { true }
    open spec fn decrease(&self) -> Option<nat> { Some(self.rest().len()) }
    open spec fn peek(&self, i: int) -> Option<&'a Uuid> {
        if 0 <= i < self.rest().len() { Some(self.rest()[i]) } else { None }
    }
}
impl Vault {
    #[verifier::external_body]
    pub fn keys(&self) -> (r: VaultKeys<'_>)
        ensures r.rest().len() == self@.secrets.len(), forall|i: int| 0 <= i < r.rest().len() ==> (#[trigger] r.rest()[i]).0@ == self@.secrets[i].0,
    { unimplemented!() }
}

// ===========================================================================
// change_cipher (crates/account/src/convert.rs compare_cipher / convert_cipher, local_account.rs change_cipher)
// ===========================================================================
/// `#[derive(PartialEq, Eq)]` on `Cipher` (crates/core/src/crypto/cipher/mod.rs:22; the shared prelude keeps `Copy, Clone, Default`
/// only): variant equality, written out
impl PartialEq for Cipher {
    fn eq(&self, other: &Cipher) -> (r: bool)
        ensures r == (*self == *other),
    {
        match (self, other) {
            (Cipher::XChaCha20Poly1305, Cipher::XChaCha20Poly1305) => true,
            (Cipher::AesGcm256, Cipher::AesGcm256) => true,
            (Cipher::X25519, Cipher::X25519) => true,
            _ => false,
        }
    }
}
impl vstd::std_specs::cmp::PartialEqSpecImpl for Cipher {
    open spec fn obeys_eq_spec() -> bool { true }
    open spec fn eq_spec(&self, other: &Cipher) -> bool { *self == *other }
}
/// `#[derive(PartialEq, Eq)]` on `KeyDerivation` (key_derivation.rs:40): variant equality, written out
impl PartialEq for KeyDerivation {
    fn eq(&self, other: &KeyDerivation) -> (r: bool)
        ensures r == (*self == *other),
    {
        match (self, other) {
            (KeyDerivation::Argon2Id, KeyDerivation::Argon2Id) => true,
            (KeyDerivation::BalloonHash, KeyDerivation::BalloonHash) => true,
            _ => false,
        }
    }
}
impl vstd::std_specs::cmp::PartialEqSpecImpl for KeyDerivation {
    open spec fn obeys_eq_spec() -> bool { true }
    open spec fn eq_spec(&self, other: &KeyDerivation) -> bool { *self == *other }
}
/// the `#[default]` variant of `KeyDerivation` (key_derivation.rs:44)
pub open spec fn kdf_or_default(o: Option<KeyDerivation>) -> KeyDerivation { match o { Some(k) => k, None => KeyDerivation::Argon2Id } }
/// R12 `Option<KeyDerivation>::unwrap_or_default()` (core/src/option.rs: the value, or `KeyDerivation::default()`; Verus gives
/// the derived `Default` no spec)
#[verifier::external_body]
pub fn kdf_unwrap_or_default(o: Option<KeyDerivation>) -> (r: KeyDerivation)
    ensures r == kdf_or_default(o),
{ unimplemented!() }
/// **Assumption VAULT-RT-ROWS**: what `encode` produced for a vault decodes to the same vault (C14 for whole vaults: unit
/// vaultcodec `lemma_roundtrip_Header` + `lemma_roundtrip_Contents`; one row per id, prelude/vault_types.rs axiom_indexmap_distinct).
/// Not broadcast.
pub axiom fn axiom_vault_roundtrip(v: VaultV)
    requires m_distinct(v.secrets),
    ensures dec_Vault(enc_Vault(v)) == Some(v);

pub open spec fn sviews(s: Seq<Summary>) -> Seq<SummaryV> { Seq::new(s.len(), |i: int| s[i]@) }
/// `Iterator::filter` as a function on the views: the elements `keep` accepts, in order
pub open spec fn filt(s: Seq<SummaryV>, keep: spec_fn(SummaryV) -> bool) -> Seq<SummaryV>
    decreases s.len(),
{
    if s.len() == 0 { Seq::empty() } else {
        let sub = filt(s.drop_last(), keep);
        if keep(s.last()) { sub.push(s.last()) } else { sub }
    }
}
/// the closure answers exactly `keep` (on the view)
pub open spec fn answers<F: Fn(&&Summary) -> bool>(p: F, keep: spec_fn(SummaryV) -> bool) -> bool {
    forall|x: Summary, b: bool| #[trigger] p.ensures((&&x,), b) ==> b == keep(x@)
}
/// R12 `$v.iter().filter(|s| $body).cloned().collect::<Vec<_>>()` on a `&[Summary]` (core `Iterator::filter`: "an iterator that
/// yields only the elements for which the closure returns true", `cloned`, `collect`) — written out and VERIFIED
pub fn vfilter_cloned<F: Fn(&&Summary) -> bool>(v: &[Summary], p: F) -> (r: Vec<Summary>)
    requires forall|s: &&Summary| #[trigger] p.requires((s,)),
    ensures forall|keep: spec_fn(SummaryV) -> bool| #[trigger] answers(p, keep) ==> sviews(r@) == filt(sviews(v@), keep),
{
    let mut out: Vec<Summary> = Vec::new();
    let mut i: usize = 0;
    proof { assert(sviews(v@.take(0)) =~= Seq::<SummaryV>::empty()); }
    while i < v.len()
        invariant
            0 <= i <= v@.len(),
            forall|s: &&Summary| #[trigger] p.requires((s,)),
            forall|keep: spec_fn(SummaryV) -> bool| #[trigger] answers(p, keep) ==> sviews(out@) == filt(sviews(v@.take(i as int)), keep),
        decreases v@.len() - i,
    {
        let x: &Summary = &v[i];
        let ghost out0 = out@;
        let keep_it = p(&x);
        if keep_it {
            out.push(x.clone());
        }
        proof {
            let s1 = sviews(v@.take(i as int + 1));
            assert(s1.drop_last() =~= sviews(v@.take(i as int)));
            assert(s1.last() == x@);
            assert forall|keep: spec_fn(SummaryV) -> bool| #[trigger] answers(p, keep) implies sviews(out@) == filt(s1, keep) by {
                assert(p.ensures((&x,), keep_it));
                assert(keep_it == keep(x@));
                if keep_it { assert(sviews(out@) =~= sviews(out0).push(x@)); } else { assert(out@ == out0); }
            }
        }
        i += 1;
    }
    proof { assert(v@.take(v@.len() as int) =~= v@); }
    out
}
/// `sos_login::IdentityFolder` — the identity vault of the signed-in user
#[verifier::external_body]
pub struct IdentityFolder { _p: () }
impl IdentityFolder {
    pub uninterp spec fn fsum(&self) -> SummaryV;
    /// crates/login/src/identity_folder.rs `summary`: a clone of the identity vault's summary
    #[verifier::external_body]
    pub fn summary(&self) -> (r: Summary) ensures r@ == self.fsum(), { unimplemented!() }
}
impl LoginIdentity {
    /// the summary of the identity (login) vault held in memory
    pub uninterp spec fn login_sum(&self) -> SummaryV;
    /// the identity vault file the user logs in from (ghost: the storage's `login_vfile`)
    pub uninterp spec fn login_file(&self) -> Seq<u8>;
    /// identity.rs `identity`: Err unless signed in
    #[verifier::external_body]
    pub fn identity(&self) -> (r: core::result::Result<&IdentityFolder, LoginError>)
        ensures r is Ok ==> r->Ok_0.fsum() == self.login_sum(),
    { unimplemented!() }
    /// identity.rs:166 `login` -> identity_folder.rs `IdentityFolder::login`: reads the identity vault from storage, unlocks it
    /// with `key`, the result replaces `self.identity` — the summary held in memory is the stored identity vault's
    #[verifier::external_body]
    pub fn login(&mut self, account_id: &AccountId, key: &AccessKey) -> (r: core::result::Result<(), LoginError>)
        ensures
            final(self).login_file() == old(self).login_file(),
            r is Ok ==> (dec_Vault(old(self).login_file()) matches Some(v) && final(self).login_sum() == v.head.summary),
            r is Err ==> final(self).login_sum() == old(self).login_sum() && final(self).keys() == old(self).keys(),
    { unimplemented!() }
}
/// `sos_account::FolderCreate<()>` — opaque (the result of `import_folder_buffer` is dropped by `convert_cipher`)
#[verifier::external_body]
pub struct FolderCreate { _p: () }
