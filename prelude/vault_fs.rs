// ===========================================================================
// prelude/vault_fs.rs — ghost file system of the unit `vaultfile`: stand-ins
// for sos_vfs::{OpenOptions, File, metadata} (= tokio::fs on native targets),
// tokio::io::{AsyncReadExt, AsyncSeekExt, AsyncWriteExt}, async_fd_lock
// guards, std::path::PathBuf.  Included inside `mod pre` after base.rs and
// binary_stream.rs.  Everything `external_body` here is an ASSUMPTION.
// Sources read: tokio-1.x src/fs/{open_options.rs,file.rs}, std::fs docs,
// async-fd-lock-0.2 src/lib.rs, crates/vfs/src/lib.rs.
// Not modelled: partial writes, crashes, concurrent writers (C09/C13 are N/A),
// permission errors other than "the call returns Err and nothing is claimed".
// ===========================================================================

/// R21: the file system as a ghost map path -> content.  It is a `tracked`
/// (erased) argument threaded through every function that touches a file; the
/// compiled code is unchanged.
pub tracked struct Fs { pub ghost files: Map<Seq<char>, Seq<u8>> }

/// `std::path::PathBuf`, viewed as its text
#[verifier::external_body]
pub struct PathBuf { _p: () }
impl View for PathBuf { type V = Seq<char>; uninterp spec fn view(&self) -> Seq<char>; }

/// truncating / zero-extending a file (`File::set_len`: "If it is greater than
/// the current file's size, then the file will be extended to size and have
/// all of the intermediate data filled in with 0s.")
pub open spec fn fs_set_len(c: Seq<u8>, n: nat) -> Seq<u8> {
    if n <= c.len() { c.subrange(0, n as int) } else { c + Seq::new((n - c.len()) as nat, |i: int| 0u8) }
}
/// write at a cursor: overwrite, extend at the end (a gap is zero filled)
pub open spec fn fs_write_at(c: Seq<u8>, pos: nat, d: Seq<u8>) -> Seq<u8> {
    splice(fs_set_len(c, if pos > c.len() { pos } else { c.len() }), pos, d)
}

/// `tokio::fs::OpenOptions` (open_options.rs): the flags set so far.  The
/// builder methods are by value here (tokio: `&mut self -> &mut Self`); the
/// call chains `OpenOptions::new().read(true)...open(p)` read the same.
pub struct OpenOptions { pub r: bool, pub w: bool, pub a: bool }
impl OpenOptions {
    /// "All options are initially set to false."
    pub fn new() -> (o: OpenOptions)
        ensures !o.r && !o.w && !o.a,
    { OpenOptions { r: false, w: false, a: false } }
    pub fn read(self, v: bool) -> (o: OpenOptions)
        ensures o == (OpenOptions { r: v, ..self }),
    { OpenOptions { r: v, w: self.w, a: self.a } }
    pub fn write(self, v: bool) -> (o: OpenOptions)
        ensures o == (OpenOptions { w: v, ..self }),
    { OpenOptions { r: self.r, w: v, a: self.a } }
    pub fn append(self, v: bool) -> (o: OpenOptions)
        ensures o == (OpenOptions { a: v, ..self }),
    { OpenOptions { r: self.r, w: self.w, a: v } }
    /// `open(path)` WITHOUT `truncate(true)` / `create(true)` (neither is ever
    /// set by the code under contract): succeeds only for an existing file,
    /// leaves its content as it is, cursor at 0.
    #[verifier::external_body]
    pub fn open(self, path: &PathBuf, Tracked(fs): Tracked<&mut Fs>) -> (f: Result<File>)
        ensures
            *final(fs) == *old(fs),
            f is Ok ==> old(fs).files.contains_key(path@)
                && old(fs).files[path@].len() <= u64::MAX   // a file's size is a u64 in every API
                && f->Ok_0@ == (FileV { path: path@, pos: 0, append: self.a, readable: self.r, writable: self.w || self.a }),
    { unimplemented!() }
}

pub ghost struct FileV { pub path: Seq<char>, pub pos: nat, pub append: bool, pub readable: bool, pub writable: bool }
/// `tokio::fs::File` (also what an async_fd_lock guard derefs to)
#[verifier::external_body]
pub struct File { _p: () }
impl View for File { type V = FileV; uninterp spec fn view(&self) -> FileV; }

/// `async_fd_lock::LockError<T>`: `{ error: io::Error, file: T }`
pub struct LockError { pub error: Error }

impl File {
    /// `AsyncSeekExt::seek`: Start(n) -> n (seeking beyond the end is allowed),
    /// End(0) -> the current length.  Other forms are not used.
    #[verifier::external_body]
    pub fn seek(&mut self, to: SeekFrom, Tracked(fs): Tracked<&mut Fs>) -> (r: Result<u64>)
        requires
            to is Start || to == SeekFrom::End(0),
            old(fs).files.contains_key(old(self)@.path),
        ensures
            *final(fs) == *old(fs),
            r is Ok ==> final(self)@ == (FileV { pos: if to is Start { to->Start_0 as nat } else { old(fs).files[old(self)@.path].len() }, ..old(self)@ })
                && r->Ok_0 == final(self)@.pos,
            r is Err ==> final(self)@.path == old(self)@.path,
    { unimplemented!() }
    /// `AsyncSeekExt::rewind`: seek(Start(0))
    #[verifier::external_body]
    pub fn rewind(&mut self) -> (r: Result<()>)
        ensures r is Ok ==> final(self)@ == (FileV { pos: 0, ..old(self)@ }), final(self)@.path == old(self)@.path,
    { unimplemented!() }
    /// `AsyncReadExt::read_to_end`: appends everything from the cursor to the
    /// end of the file to `buf`; the cursor ends at the end
    #[verifier::external_body]
    pub fn read_to_end(&mut self, buf: &mut Vec<u8>, Tracked(fs): Tracked<&mut Fs>) -> (r: Result<usize>)
        requires old(fs).files.contains_key(old(self)@.path),
        ensures
            *final(fs) == *old(fs),
            final(self)@.path == old(self)@.path,
            r is Ok ==> ({
                let c = old(fs).files[old(self)@.path];
                let p = if old(self)@.pos <= c.len() { old(self)@.pos } else { c.len() };
                final(buf)@ == old(buf)@ + c.subrange(p as int, c.len() as int)
                    && final(self)@ == (FileV { pos: if old(self)@.pos <= c.len() { c.len() } else { old(self)@.pos }, ..old(self)@ })
            }),
    { unimplemented!() }
    /// `File::set_len`: truncates or zero-extends; "The file's cursor is not changed."
    #[verifier::external_body]
    pub fn set_len(&mut self, size: u64, Tracked(fs): Tracked<&mut Fs>) -> (r: Result<()>)
        requires old(fs).files.contains_key(old(self)@.path),
        ensures
            final(self)@ == old(self)@,
            r is Ok ==> final(fs).files == old(fs).files.insert(old(self)@.path, fs_set_len(old(fs).files[old(self)@.path], size as nat)),
            final(fs).files.contains_key(old(self)@.path),
    { unimplemented!() }
    /// `AsyncWriteExt::write_all`: the whole buffer is written at the cursor
    /// (at the end of the file for a handle opened with `append(true)`:
    /// O_APPEND), the cursor moves behind it
    #[verifier::external_body]
    pub fn write_all(&mut self, data: &[u8], Tracked(fs): Tracked<&mut Fs>) -> (r: Result<()>)
        requires old(fs).files.contains_key(old(self)@.path),
        ensures
            final(self)@.path == old(self)@.path,
            final(fs).files.contains_key(old(self)@.path),
            r is Ok ==> ({
                let c = old(fs).files[old(self)@.path];
                let at = if old(self)@.append { c.len() } else { old(self)@.pos };
                final(fs).files == old(fs).files.insert(old(self)@.path, fs_write_at(c, at, data@))
                    && final(self)@ == (FileV { pos: at + data@.len(), ..old(self)@ })
            }),
    { unimplemented!() }
    /// `AsyncWriteExt::flush`
    #[verifier::external_body]
    pub fn flush(&mut self) -> (r: Result<()>)
        ensures final(self)@ == old(self)@,
    { unimplemented!() }
    // ---- further commonly used methods of tokio::fs::File / the Async*Ext traits (additive; not
    // ---- called by the current code, present so that an edit that switches to them is still judged)
    /// `File::sync_all` (tokio-1.x src/fs/file.rs): "Attempts to sync all OS-internal metadata
    /// to disk." — content and cursor as they are (durability is not modelled)
    #[verifier::external_body]
    pub fn sync_all(&self) -> (r: Result<()>)
    { unimplemented!() }
    /// `File::sync_data`: "This function is similar to sync_all, except that it may not
    /// synchronize file metadata to the filesystem."
    #[verifier::external_body]
    pub fn sync_data(&self) -> (r: Result<()>)
    { unimplemented!() }
    /// `AsyncWriteExt::shutdown`: "Shuts down the output stream, ensuring that the value can be
    /// dropped cleanly." — for a file: flush (tokio src/fs/file.rs `poll_shutdown` = `poll_flush`)
    #[verifier::external_body]
    pub fn shutdown(&mut self) -> (r: Result<()>)
        ensures final(self)@ == old(self)@,
    { unimplemented!() }
    /// `AsyncSeekExt::stream_position`: "the current seek position from the start of the
    /// stream" (= seek(SeekFrom::Current(0))), cursor unchanged
    #[verifier::external_body]
    pub fn stream_position(&mut self) -> (r: Result<u64>)
        ensures final(self)@ == old(self)@, r is Ok ==> r->Ok_0 == old(self)@.pos,
    { unimplemented!() }
    /// `LockWrite::lock_write(self)` (async_fd_lock): the guard derefs to the file
    #[verifier::external_body]
    pub fn lock_write(self) -> (r: core::result::Result<File, LockError>)
        ensures r is Ok ==> r->Ok_0@ == self@,
    { unimplemented!() }
    /// `LockRead::lock_read(self)`
    #[verifier::external_body]
    pub fn lock_read(self) -> (r: core::result::Result<File, LockError>)
        ensures r is Ok ==> r->Ok_0@ == self@,
    { unimplemented!() }
    /// `RwLockWriteGuard::inner_mut`: the file behind the guard (here: itself)
    pub fn inner_mut(&mut self) -> (r: &mut File)
        ensures *r == *old(self), *final(self) == *final(r),
    { self }
}

/// `std::fs::Metadata`
#[verifier::external_body]
pub struct Metadata { _p: () }
impl Metadata {
    pub uninterp spec fn size(&self) -> nat;
    #[verifier::external_body]
    pub fn len(&self) -> (r: u64)
        ensures r == self.size(),
    { unimplemented!() }
}
pub mod vfs {
    use super::*;
    /// `sos_vfs::metadata(path)` = tokio::fs::metadata
    #[verifier::external_body]
    pub fn metadata(path: &PathBuf, Tracked(fs): Tracked<&mut Fs>) -> (r: Result<Metadata>)
        ensures
            *final(fs) == *old(fs),
            r is Ok ==> old(fs).files.contains_key(path@) && r->Ok_0.size() == old(fs).files[path@].len(),
    { unimplemented!() }
}

/// `sos_core::encoding::encoding_options()` (crates/core/src/encoding/mod.rs:28) is no
/// longer a stand-in here: unit `vaultfile` EXTRACTS the function and its constant and pins
/// the 16 MiB guard and the little-endian order that prelude/binary_stream.rs builds into
/// BinaryReader / BinaryWriter (`[decode_guard_is_16mib]`, `[layout_is_little_endian]`, as
/// units/frag/codec_base.vrs and units/stream.vrs do).  The constructors below take the
/// real `binary_stream::Options` (struct in prelude/binary_stream.rs).

/// `std::io::Cursor<Vec<u8>>`
#[verifier::external_body]
pub struct Cursor { _p: () }
impl View for Cursor { type V = Stream; uninterp spec fn view(&self) -> Stream; }
impl Cursor {
    /// `Cursor::new(vec)`: position 0 over the vector
    #[verifier::external_body]
    pub fn new(v: Vec<u8>) -> (r: Cursor)
        ensures r@ == (Stream { bytes: v@, pos: 0 }),
    { unimplemented!() }
}
impl AsyncWrite for Cursor {}
impl AsyncSeek for Cursor {}
impl AsyncRead for File {}
impl AsyncSeek for File {}

// ---- binary_stream constructors over these streams (binary-stream-10.0.0
//      src/futures/mod.rs `BinaryReader::new` / `BinaryWriter::new` / `flush` / `len`)
impl BinaryWriter<Cursor> {
    /// `BinaryWriter::new(stream, options)`: writes go to the stream at its cursor
    #[verifier::external_body]
    pub fn new(c: Cursor, o: Options) -> (r: Self)
        ensures r@ == c@,
    { unimplemented!() }
    /// `flush`: no effect on a Cursor
    #[verifier::external_body]
    pub fn flush(&mut self) -> (r: Result<()>)
        ensures final(self)@ == old(self)@,
    { unimplemented!() }
    /// `len`: the length of the underlying stream, cursor restored
    #[verifier::external_body]
    pub fn len(&mut self) -> (r: Result<u64>)
        ensures final(self)@ == old(self)@, r is Ok ==> r->Ok_0 == old(self)@.bytes.len(),
    { unimplemented!() }
    /// R22: the vector behind the writer (replaces the `&mut buffer` the real
    /// code lends to the cursor: Verus has no mutable borrow stored in a struct)
    #[verifier::external_body]
    pub fn into_vec(self) -> (r: Vec<u8>)
        ensures r@ == self@.bytes,
    { unimplemented!() }
}
impl BinaryReader<File> {
    /// `BinaryReader::new(stream, options)` over an open file: what the reader
    /// sees is the file's content from the file's cursor.  R22: the file is
    /// taken by value (the real code lends `&mut guard` and does not use the
    /// guard again).
    #[verifier::external_body]
    pub fn new(f: File, o: Options, Tracked(fs): Tracked<&mut Fs>) -> (r: Self)
        requires old(fs).files.contains_key(f@.path), f@.pos <= old(fs).files[f@.path].len(),
        ensures
            *final(fs) == *old(fs),
            r@ == (Stream { bytes: old(fs).files[f@.path], pos: f@.pos }),
    { unimplemented!() }
}

/// `#[derive(PartialEq, Eq)]` of uuid::Uuid: equality of the 16 bytes
impl vstd::std_specs::cmp::PartialEqSpecImpl for Uuid {
    open spec fn obeys_eq_spec() -> bool { true }
    open spec fn eq_spec(&self, other: &Uuid) -> bool { self.0@ == other.0@ }
}
impl PartialEq for Uuid {
    #[verifier::external_body]
    fn eq(&self, other: &Uuid) -> bool { self.0 == other.0 }
}
