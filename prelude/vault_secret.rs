// ===========================================================================
// prelude/vault_secret.rs — stand-ins of the unit `vaultmem` for hashing,
// the whole-value codec entry points (`sos_core::{encode, decode}`), the
// plaintext types (Secret, SecretMeta, VaultMeta) and key derivation.
// Included at top level inside `mod cpre`, after prelude/vault_crypto.rs.
// Everything `external_body` / `axiom` / `assume_specification` here is an
// ASSUMPTION.  Sources read: sha2-0.10.9 / digest-0.10 (`Digest`),
// crates/core/src/encoding/mod.rs (encode/decode), crates/vault/src/secret.rs,
// crates/vault/src/encoding/{secret,vault}.rs, argon2-0.5.3,
// balloon-hash-0.4.0, password-hash-0.5.0 (`SaltString`, `PasswordHash`),
// crates/core/src/crypto/key_derivation.rs.
// ===========================================================================

// ---- SHA-256 --------------------------------------------------------------------
/// the SHA-256 function
pub uninterp spec fn sha256(data: Seq<u8>) -> Seq<u8>;
/// a SHA-256 digest has 32 bytes
pub broadcast axiom fn axiom_sha256_len(data: Seq<u8>)
    ensures (#[trigger] sha256(data)).len() == 32;
/// **Axiom CR** (collision resistance idealised as injectivity); not broadcast
pub axiom fn axiom_sha256_cr(a: Seq<u8>, b: Seq<u8>)
    ensures sha256(a) == sha256(b) ==> a == b;

/// `sha2::Digest` (digest-0.10 src/digest.rs): the one-shot `digest` used by
/// `Deriver::derive`; `hash` is the function the implementor computes
pub trait Digest {
    spec fn hash(data: Seq<u8>) -> Seq<u8>;
    /// `Digest::digest(data: impl AsRef<[u8]>) -> Output<Self>` at `&[u8]`
    fn digest(data: &[u8]) -> (r: Sha256Output)
        ensures r@ == Self::hash(data@);
}
/// `sha2::Sha256` hasher state: the bytes fed so far
#[verifier::external_body]
pub struct Sha256 { _p: () }
impl Digest for Sha256 {
    open spec fn hash(data: Seq<u8>) -> Seq<u8> { sha256(data) }
    #[verifier::external_body]
    fn digest(data: &[u8]) -> (r: Sha256Output) { unimplemented!() }
}
/// `GenericArray<u8, U32>` output of `finalize` / `digest`
#[verifier::external_body]
pub struct Sha256Output { _p: () }
impl View for Sha256Output { type V = Seq<u8>; uninterp spec fn view(&self) -> Seq<u8>; }
impl Sha256Output {
    /// generic-array `as_slice`
    #[verifier::external_body]
    pub fn as_slice(&self) -> (r: &[u8])
        ensures r@ == self@,
    { unimplemented!() }
}
impl Sha256 {
    pub uninterp spec fn fed(&self) -> Seq<u8>;
    /// `Digest::new`
    #[verifier::external_body]
    pub fn new() -> (r: Sha256)
        ensures r.fed() == Seq::<u8>::empty(),
    { unimplemented!() }
    /// `Digest::update(&mut self, data: impl AsRef<[u8]>)` at `&Vec<u8>`: appends
    #[verifier::external_body]
    pub fn update(&mut self, data: &Vec<u8>)
        ensures final(self).fed() == old(self).fed() + data@,
    { unimplemented!() }
    /// `Digest::finalize(self)`: the hash of everything fed
    #[verifier::external_body]
    pub fn finalize(self) -> (r: Sha256Output)
        ensures r@ == sha256(self.fed()),
    { unimplemented!() }
}

// ---- codecs of the value types (entry points: prelude/vault_encode.rs) ------------
/// `impl Encodable for AeadPack` (crates/core/src/encoding/v1/crypto.rs): the
/// function proved equal to the real encoder in unit `codec`
/// (`[encode_writes_exactly_enc_fn]` for AeadPack)
pub open spec fn enc_AeadPack(v: AeadPackV) -> Seq<u8> {
    (match v.nonce { NonceV::N12(b) => seq![12u8] + b, NonceV::N24(b) => seq![24u8] + b })
        + le32(v.ct.len() as u32) + v.ct
}
impl Encoded for AeadPack {
    open spec fn enc_view(v: AeadPackV) -> Seq<u8> { enc_AeadPack(v) } open spec fn enc_valid(v: AeadPackV) -> bool { true }
}

// ---- plaintext types ------------------------------------------------------------
/// `sos_vault::secret::SecretMeta` (secret.rs): label, tags, kind, flags, dates ...
#[verifier::external_body]
pub struct SecretMeta { _p: () }
#[verifier::external_body]
pub struct SecretMetaV { _p: () }
impl View for SecretMeta { type V = SecretMetaV; uninterp spec fn view(&self) -> SecretMetaV; }
/// `sos_vault::secret::Secret` (secret.rs): the secret kinds with their fields
#[verifier::external_body]
pub struct Secret { _p: () }
#[verifier::external_body]
pub struct SecretV { _p: () }
impl View for Secret { type V = SecretV; uninterp spec fn view(&self) -> SecretV; }
/// the encoders / decoders of crates/vault/src/encoding/secret.rs as functions
pub uninterp spec fn enc_SecretMeta(v: SecretMetaV) -> Seq<u8>;
pub uninterp spec fn dec_SecretMeta(b: Seq<u8>) -> Option<SecretMetaV>;
pub uninterp spec fn enc_Secret(v: SecretV) -> Seq<u8>;
pub uninterp spec fn dec_Secret(b: Seq<u8>) -> Option<SecretV>;
impl Encoded for SecretMeta { open spec fn enc_view(v: SecretMetaV) -> Seq<u8> { enc_SecretMeta(v) } open spec fn enc_valid(v: SecretMetaV) -> bool { true } }
impl Decoded for SecretMeta { open spec fn dec_view(b: Seq<u8>) -> Option<SecretMetaV> { dec_SecretMeta(b) } }
impl Encoded for Secret { open spec fn enc_view(v: SecretV) -> Seq<u8> { enc_Secret(v) } open spec fn enc_valid(v: SecretV) -> bool { true } }
impl Decoded for Secret { open spec fn dec_view(b: Seq<u8>) -> Option<SecretV> { dec_Secret(b) } }
/// **Assumption SECRET-RT** (C14 for SecretMeta / Secret, not yet under
/// contract): what the encoder wrote decodes to the same value.  Not broadcast.
pub axiom fn axiom_secret_roundtrip(m: SecretMetaV, s: SecretV)
    ensures dec_SecretMeta(enc_SecretMeta(m)) == Some(m), dec_Secret(enc_Secret(s)) == Some(s);

/// `sos_vault::VaultMeta` (vault.rs:35): date created + description
#[verifier::external_body]
pub struct VaultMeta { _p: () }
#[verifier::external_body]
pub struct VaultMetaV { _p: () }
impl View for VaultMeta { type V = VaultMetaV; uninterp spec fn view(&self) -> VaultMetaV; }
pub uninterp spec fn enc_VaultMeta(v: VaultMetaV) -> Seq<u8>;
pub uninterp spec fn dec_VaultMeta(b: Seq<u8>) -> Option<VaultMetaV>;
impl Encoded for VaultMeta { open spec fn enc_view(v: VaultMetaV) -> Seq<u8> { enc_VaultMeta(v) } open spec fn enc_valid(v: VaultMetaV) -> bool { true } }
impl Decoded for VaultMeta { open spec fn dec_view(b: Seq<u8>) -> Option<VaultMetaV> { dec_VaultMeta(b) } }

/// `impl Encodable / Decodable for SharedAccess` (crates/vault/src/encoding/vault.rs)
pub uninterp spec fn enc_SharedAccess(v: SharedV) -> Seq<u8>;
pub uninterp spec fn dec_SharedAccess(b: Seq<u8>) -> Option<SharedV>;
impl Encoded for SharedAccess { open spec fn enc_view(v: SharedV) -> Seq<u8> { enc_SharedAccess(v) } open spec fn enc_valid(v: SharedV) -> bool { true } }
impl Decoded for SharedAccess { open spec fn dec_view(b: Seq<u8>) -> Option<SharedV> { dec_SharedAccess(b) } }

/// `impl Encodable for Vault` (encoding/vault.rs): header then every row
pub uninterp spec fn enc_Vault(v: VaultV) -> Seq<u8>;
impl Encoded for Vault { open spec fn enc_view(v: VaultV) -> Seq<u8> { enc_Vault(v) } open spec fn enc_valid(v: VaultV) -> bool { true } }

impl SharedAccess {
    /// vault.rs:522 `parse_recipients`: `str::parse::<age::x25519::Recipient>` of
    /// every string, Err(InvalidX25519Identity) on the first that does not parse
    #[verifier::external_body]
    pub fn parse_recipients(access: &Vec<String>) -> (r: VResult<Vec<Recipient>>)
    { unimplemented!() }
}

// ---- key derivation -------------------------------------------------------------
/// `password_hash::SaltString` (password-hash-0.5.0 src/salt.rs): a B64 salt string
#[verifier::external_body]
pub struct SaltString { _p: () }
impl View for SaltString { type V = Seq<char>; uninterp spec fn view(&self) -> Seq<char>; }
/// the B64 text of a 16-byte salt (salt.rs `SaltString::generate`: 16 random
/// bytes, `encode_b64`)
pub uninterp spec fn salt_text(bytes: Seq<u8>) -> Seq<char>;
/// B64 encoding is injective
pub axiom fn axiom_salt_text_injective(a: Seq<u8>, b: Seq<u8>)
    ensures salt_text(a) == salt_text(b) ==> a == b;
impl SaltString {
    /// R19 `SaltString::generate(&mut csprng())` with the ghost draw counter
    #[verifier::external_body]
    pub fn generate(rng_: &mut Csprng, Tracked(rng): Tracked<&mut Rng>) -> (r: SaltString)
        ensures
            r@ == salt_text(draw(old(rng).count, 16)),
            final(rng).count == old(rng).count + 1,
    { unimplemented!() }
    /// salt.rs `from_b64`: validates and stores the string as it is
    #[verifier::external_body]
    pub fn from_b64(s: &str) -> (r: core::result::Result<SaltString, PasswordHashError>)
        ensures r is Ok ==> r->Ok_0@ == s@,
    { unimplemented!() }
    /// `Display` / `to_string`: the stored string
    #[verifier::external_body]
    pub fn to_string(&self) -> (r: String)
        ensures r@ == self@,
    { unimplemented!() }
}
/// R7b: the bound `S: AsRef<str>` of `KeyDerivation::parse_salt` (vstd does not
/// declare `AsRef`); std meaning at the one type it is used with, `&String`
/// (alloc/src/string.rs `impl AsRef<str> for String`: the string itself)
pub trait StrRef {
    spec fn chars(&self) -> Seq<char>;
    fn as_ref(&self) -> (r: &str)
        ensures r@ == self.chars();
}
impl StrRef for &String {
    open spec fn chars(&self) -> Seq<char> { (**self)@ }
    fn as_ref(&self) -> (r: &str) { self.as_str() }
}
/// the PHC string a password-hashing function (`Argon2::default()` /
/// `Balloon::<Sha256>::default()` `.hash_password`) produces, as bytes
pub uninterp spec fn KDF(kind: KeyDerivation, password: Seq<u8>, salt: Seq<char>) -> Seq<u8>;
/// **Axiom KDF** (injective): different algorithm, password bytes or salt give
/// a different PHC string.  Idealisation; not broadcast.
pub axiom fn axiom_kdf(k1: KeyDerivation, p1: Seq<u8>, s1: Seq<char>, k2: KeyDerivation, p2: Seq<u8>, s2: Seq<char>)
    ensures KDF(k1, p1, s1) == KDF(k2, p2, s2) ==> k1 == k2 && p1 == p2 && s1 == s2;

/// `password_hash::PasswordHash<'a>` (password-hash-0.5.0 src/lib.rs): a parsed
/// PHC string borrowing the salt; `phc` = its serialised bytes
#[verifier::external_body]
pub struct PasswordHash<'a> { _p: core::marker::PhantomData<&'a SaltString> }
impl<'a> PasswordHash<'a> {
    pub uninterp spec fn phc(&self) -> Seq<u8>;
    /// `serialize`: the PHC string as an owned `PasswordHashString`
    #[verifier::external_body]
    pub fn serialize(&self) -> (r: PasswordHashString)
        ensures r.phc() == self.phc(),
    { unimplemented!() }
}
/// `password_hash::PasswordHashString`
#[verifier::external_body]
pub struct PasswordHashString { _p: () }
impl PasswordHashString {
    pub uninterp spec fn phc(&self) -> Seq<u8>;
    /// `as_bytes`: the PHC string's bytes
    #[verifier::external_body]
    pub fn as_bytes(&self) -> (r: &[u8])
        ensures r@ == self.phc(),
    { unimplemented!() }
}
/// `argon2::Argon2` with default parameters (argon2-0.5.3: Argon2id v19, m=19456, t=2, p=1)
pub struct Argon2 { pub _p: () }
impl Default for Argon2 { fn default() -> Argon2 { Argon2 { _p: () } } }
impl Argon2 {
    /// `PasswordHasher::hash_password(&self, password, salt)`
    #[verifier::external_body]
    pub fn hash_password<'a>(&self, password: &[u8], salt: &'a SaltString) -> (r: core::result::Result<PasswordHash<'a>, PasswordHashError>)
        ensures r is Ok ==> r->Ok_0.phc() == KDF(KeyDerivation::Argon2Id, password@, salt@),
    { unimplemented!() }
}
/// `balloon_hash::Balloon<Sha256>` with default parameters (balloon-hash-0.4.0)
#[verifier::reject_recursive_types(D)]
pub struct Balloon<D> { pub _p: core::marker::PhantomData<D> }
impl<D> Default for Balloon<D> { fn default() -> Balloon<D> { Balloon { _p: core::marker::PhantomData } } }
impl<D> Balloon<D> {
    #[verifier::external_body]
    pub fn hash_password<'a>(&self, password: &[u8], salt: &'a SaltString) -> (r: core::result::Result<PasswordHash<'a>, PasswordHashError>)
        ensures r is Ok ==> r->Ok_0.phc() == KDF(KeyDerivation::BalloonHash, password@, salt@),
    { unimplemented!() }
}
/// `<[T]>::to_vec` (alloc/src/slice.rs): clones every element
pub assume_specification<T: Clone> [<[T]>::to_vec] (s: &[T]) -> (r: Vec<T>)
    ensures r@.len() == s@.len(), forall|i: int| 0 <= i < s@.len() ==> call_ensures(T::clone, (&s@[i],), #[trigger] r@[i]);

pub open spec fn seed_bytes(seed: Option<Seq<u8>>) -> Seq<u8> {
    match seed { Some(s) => s, None => Seq::<u8>::empty() }
}
/// what `Deriver::derive` computes (key_derivation.rs:131): SHA-256 of the PHC
/// string of KDF(password bytes ++ seed bytes, salt)
pub open spec fn derive_key(kind: KeyDerivation, password: Seq<char>, salt: Seq<char>, seed: Option<Seq<u8>>) -> Seq<u8> {
    sha256(KDF(kind, vstd::utf8::encode_utf8(password) + seed_bytes(seed), salt))
}
/// the same for a `Deriver<D>` over any digest `D`
pub open spec fn derive_key_d<D: Digest>(kind: KeyDerivation, password: Seq<char>, salt: Seq<char>, seed: Option<Seq<u8>>) -> Seq<u8> {
    D::hash(KDF(kind, vstd::utf8::encode_utf8(password) + seed_bytes(seed), salt))
}
