// ===========================================================================
// prelude/vault_core.rs — shared by the units `vaultmem` and `vaultfile`,
// included at top level (after `mod pre`): the REAL text of the data types the
// vault code works on (extracted, not retyped), their ghost views, and the
// meaning of the `#[derive(Clone)]` that rule R6b takes off them (written out
// field by field and verified, so that `clone()` carries a contract).
// ===========================================================================

/// rs_merkle: <Sha256 as Hasher>::Hash
pub type TreeHash = [u8; 32];
//@extract crates/core/src/commit/proof.rs :: struct CommitHash
//@end
//@extract crates/core/src/crypto/mod.rs :: enum Nonce
//@  rewrite R6b "#[derive(Clone)]" => ""
//@end
//@extract crates/core/src/crypto/mod.rs :: impl Default for Nonce
//@  serves C01
//@  fn default
//@end
//@extract crates/core/src/crypto/mod.rs :: struct AeadPack
//@  rewrite R6b "#[derive(Default, Clone)]" => "#[derive(Default)]"
//@end
//@extract crates/core/src/lib.rs :: struct VaultEntry
//@  rewrite R6b "#[derive(Default, Clone)]" => "#[derive(Default)]"
//@end
//@extract crates/core/src/lib.rs :: struct VaultCommit
//@  rewrite R6b "#[derive(Default, Clone)]" => "#[derive(Default)]"
//@end
//@extract crates/core/src/events/write.rs :: enum WriteEvent
//@end
//@extract crates/core/src/events/read.rs :: enum ReadEvent
//@end
//@extract crates/core/src/crypto/cipher/mod.rs :: enum Cipher
//@end
//@extract crates/core/src/crypto/key_derivation.rs :: enum KeyDerivation
//@end
//@extract crates/core/src/crypto/key_derivation.rs :: struct Seed
//@end
//@extract crates/core/src/crypto/key_derivation.rs :: impl Seed
//@end

pub ghost enum NonceV { N12(Seq<u8>), N24(Seq<u8>) }
pub ghost struct AeadPackV { pub nonce: NonceV, pub ct: Seq<u8> }
impl View for Nonce {
    type V = NonceV;
    open spec fn view(&self) -> NonceV {
        match self { Nonce::Nonce12(b) => NonceV::N12(b@), Nonce::Nonce24(b) => NonceV::N24(b@) }
    }
}
impl View for AeadPack {
    type V = AeadPackV;
    open spec fn view(&self) -> AeadPackV { AeadPackV { nonce: self.nonce@, ct: self.ciphertext@ } }
}
pub ghost struct VaultEntryV { pub meta: AeadPackV, pub secret: AeadPackV }
pub ghost struct VaultCommitV { pub commit: Seq<u8>, pub entry: VaultEntryV }
impl View for VaultEntry {
    type V = VaultEntryV;
    open spec fn view(&self) -> VaultEntryV { VaultEntryV { meta: self.0@, secret: self.1@ } }
}
impl View for VaultCommit {
    type V = VaultCommitV;
    open spec fn view(&self) -> VaultCommitV { VaultCommitV { commit: self.0.0@, entry: self.1@ } }
}
pub ghost enum WriteEventV {
    Noop,
    CreateVault(Seq<u8>),
    SetVaultName(Seq<char>),
    SetVaultFlags(u64),
    SetVaultMeta(AeadPackV),
    CreateSecret(Seq<u8>, VaultCommitV),
    UpdateSecret(Seq<u8>, VaultCommitV),
    DeleteSecret(Seq<u8>),
}
impl View for WriteEvent {
    type V = WriteEventV;
    open spec fn view(&self) -> WriteEventV {
        match self {
            WriteEvent::Noop => WriteEventV::Noop,
            WriteEvent::CreateVault(b) => WriteEventV::CreateVault(b@),
            WriteEvent::SetVaultName(n) => WriteEventV::SetVaultName(n@),
            WriteEvent::SetVaultFlags(f) => WriteEventV::SetVaultFlags(f.b),
            WriteEvent::SetVaultMeta(m) => WriteEventV::SetVaultMeta(m@),
            WriteEvent::CreateSecret(id, c) => WriteEventV::CreateSecret(id.0@, c@),
            WriteEvent::UpdateSecret(id, c) => WriteEventV::UpdateSecret(id.0@, c@),
            WriteEvent::DeleteSecret(id) => WriteEventV::DeleteSecret(id.0@),
        }
    }
}

/// `#[derive(Clone)]` on Nonce (R6b): variant-wise copy of the byte array
impl Clone for Nonce {
    fn clone(&self) -> (r: Self)
        ensures r == *self,
    {
        match self { Nonce::Nonce12(b) => Nonce::Nonce12(*b), Nonce::Nonce24(b) => Nonce::Nonce24(*b) }
    }
}
/// `#[derive(Clone)]` on AeadPack (R6b): field-wise clone
impl Clone for AeadPack {
    fn clone(&self) -> (r: Self)
        ensures r@ == self@,
    { AeadPack { nonce: self.nonce.clone(), ciphertext: self.ciphertext.clone() } }
}
/// `#[derive(Clone)]` on VaultEntry (R6b): field-wise clone
impl Clone for VaultEntry {
    fn clone(&self) -> (r: Self)
        ensures r@ == self@,
    { VaultEntry(self.0.clone(), self.1.clone()) }
}
/// `#[derive(Clone)]` on VaultCommit (R6b): field-wise clone (CommitHash is Copy)
impl Clone for VaultCommit {
    fn clone(&self) -> (r: Self)
        ensures r@ == self@,
    { VaultCommit(self.0, self.1.clone()) }
}

// ---- the vault itself (crates/vault/src/vault.rs) ------------------------------
//@extract crates/vault/src/vault.rs :: struct Auth
//@  rewrite R6b "#[derive(Clone, Default)]" => "#[derive(Default)]"
//@end
//@extract crates/vault/src/vault.rs :: struct Summary
//@  rewrite R6b "#[derive(Clone)]" => ""
//@end
//@extract crates/vault/src/vault.rs :: enum SharedAccess
//@  rewrite R6b "#[derive(Clone)]" => ""
//@end
//@extract crates/vault/src/vault.rs :: struct Header
//@  rewrite R6b "#[derive(Clone, Default)]" => ""
//@end
//@extract crates/vault/src/vault.rs :: struct Contents
//@  rewrite R6b "#[derive(Clone, Default)]" => ""
//@end
//@extract crates/vault/src/vault.rs :: struct Vault
//@  rewrite R6b "#[derive(Clone, Default)]" => ""
//@end

pub ghost struct SummaryV { pub version: u16, pub id: Seq<u8>, pub name: Seq<char>, pub cipher: Cipher, pub kdf: KeyDerivation, pub flags: u64 }
pub ghost struct AuthV { pub salt: Option<Seq<char>>, pub seed: Option<Seq<u8>> }
pub ghost enum SharedV { Write(Seq<Seq<char>>), ReadOnly(AeadPackV) }
pub ghost struct HeaderV { pub summary: SummaryV, pub meta: Option<AeadPackV>, pub auth: AuthV, pub shared: SharedV }
/// view of `Vault`: header + `contents.data` in IndexMap order (id bytes, row)
pub ghost struct VaultV { pub head: HeaderV, pub secrets: Seq<(Seq<u8>, VaultCommitV)> }

impl View for Summary {
    type V = SummaryV;
    open spec fn view(&self) -> SummaryV {
        SummaryV { version: self.version, id: self.id.0@, name: self.name@, cipher: self.cipher, kdf: self.kdf, flags: self.flags.b }
    }
}
impl View for Auth {
    type V = AuthV;
    open spec fn view(&self) -> AuthV {
        AuthV {
            salt: match self.salt { Some(s) => Some(s@), None => None },
            seed: match self.seed { Some(s) => Some(s.0@), None => None },
        }
    }
}
pub open spec fn strs_view(v: Seq<String>) -> Seq<Seq<char>> { Seq::new(v.len(), |i: int| v[i]@) }
impl View for SharedAccess {
    type V = SharedV;
    open spec fn view(&self) -> SharedV {
        match self { SharedAccess::WriteAccess(r) => SharedV::Write(strs_view(r@)), SharedAccess::ReadOnly(a) => SharedV::ReadOnly(a@) }
    }
}
impl View for Header {
    type V = HeaderV;
    open spec fn view(&self) -> HeaderV {
        HeaderV {
            summary: self.summary@,
            meta: match self.meta { Some(m) => Some(m@), None => None },
            auth: self.auth@,
            shared: self.shared_access@,
        }
    }
}
impl View for Vault {
    type V = VaultV;
    open spec fn view(&self) -> VaultV { VaultV { head: self.header@, secrets: self.contents.data@ } }
}

/// `#[derive(Clone)]` on Summary (R6b): field-wise clone
impl Clone for Summary {
    fn clone(&self) -> (r: Self)
        ensures r@ == self@,
    { Summary { version: self.version, id: self.id, name: self.name.clone(), cipher: self.cipher, kdf: self.kdf, flags: self.flags } }
}
/// `#[derive(Clone)]` on Auth (R6b): field-wise clone (Seed is Copy)
impl Clone for Auth {
    fn clone(&self) -> (r: Self)
        ensures r@ == self@,
    {
        Auth {
            salt: match &self.salt { Some(s) => Some(s.clone()), None => None },
            seed: match &self.seed { Some(s) => Some(*s), None => None },
        }
    }
}
/// `#[derive(Clone)]` on SharedAccess (R6b).  `Vec<String>::clone` has no
/// element-wise specification in vstd: ASSUMPTION (std meaning: same strings).
impl Clone for SharedAccess {
    #[verifier::external_body]
    fn clone(&self) -> (r: Self)
        ensures r@ == self@,
    {
        match self { SharedAccess::WriteAccess(r) => SharedAccess::WriteAccess(r.clone()), SharedAccess::ReadOnly(a) => SharedAccess::ReadOnly(a.clone()) }
    }
}
/// `#[derive(Clone)]` on Header (R6b): field-wise clone
impl Clone for Header {
    fn clone(&self) -> (r: Self)
        ensures r@ == self@,
    {
        Header {
            summary: self.summary.clone(),
            meta: match &self.meta { Some(m) => Some(m.clone()), None => None },
            auth: self.auth.clone(),
            shared_access: self.shared_access.clone(),
        }
    }
}
/// `#[derive(Default)]` on Contents (R6b): every field's default (an empty map)
impl Default for Contents {
    fn default() -> (r: Self)
        ensures r.data@.len() == 0,
    { Contents { data: Default::default() } }
}
/// `#[derive(Clone)]` on Contents (R6b): `IndexMap::clone`
impl Clone for Contents {
    fn clone(&self) -> (r: Self)
        ensures r.data@ == self.data@,
    { Contents { data: self.data.clone() } }
}
/// `#[derive(Clone)]` on Vault (R6b): field-wise clone
impl Clone for Vault {
    fn clone(&self) -> (r: Self)
        ensures r@ == self@,
    { Vault { header: self.header.clone(), contents: self.contents.clone() } }
}
