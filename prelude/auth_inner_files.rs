// ===========================================================================
// prelude/auth_inner_files.rs — stand-ins for the INNER handlers of
// crates/server/src/handlers/files.rs (`mod handlers`), included inside
// `pub mod files { pub mod handlers { .. } }` of units/auth.vrs.  Same
// convention as auth_inner_account.rs.  `receive_file` and `compare_files`
// are the two file routes whose request HAS a body; per the property
// statement the signature must then cover exactly that body.
// ===========================================================================

#[verifier::external_body]
pub fn receive_file(_state: ServerState, backend: ServerBackend, caller: Caller, vault_id: VaultId, secret_id: SecretId, file_name: ExternalFileName, body: Body) -> ServerResult<()>
    requires signed_bytes_are_the_body(&caller, body@), /*@PL:signed_bytes_are_the_body*/
{ unimplemented!() }

#[verifier::external_body]
pub fn delete_file(_state: ServerState, backend: ServerBackend, caller: Caller, vault_id: VaultId, secret_id: SecretId, file_name: ExternalFileName) -> ServerResult<()>
{ unimplemented!() }

#[verifier::external_body]
pub fn send_file(_state: ServerState, backend: ServerBackend, caller: Caller, vault_id: VaultId, secret_id: SecretId, file_name: ExternalFileName) -> ServerResult<Response>
{ unimplemented!() }

#[verifier::external_body]
pub fn move_file(_state: ServerState, backend: ServerBackend, caller: Caller, vault_id: VaultId, secret_id: SecretId, file_name: ExternalFileName, query: MoveFileQuery) -> ServerResult<()>
{ unimplemented!() }

#[verifier::external_body]
pub fn compare_files(_state: ServerState, backend: ServerBackend, caller: Caller, body: Bytes) -> ServerResult<(HeaderMap, Vec<u8>)>
    requires signed_bytes_are_the_body(&caller, body@), /*@PL:signed_bytes_are_the_body*/
{ unimplemented!() }
