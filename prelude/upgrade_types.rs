// ===========================================================================
// prelude/upgrade_types.rs — stand-ins of unit `upgrade` for everything
// crates/database_upgrader/src/upgrader/db_import.rs calls but that lives
// outside the unit.  Every `external_body` below is an ASSUMPTION (trusted
// base); each names the source that was read.  Included at TOP LEVEL after the
// extracted record / row types, prelude/dblog_spec.rs, prelude/dbvault_spec.rs
// and prelude/upgrade_spec.rs.
//
// PINNED SQL.  No verifier here interprets SQL.  The contracts of the
// `EventEntity` / `FolderEntity` / `AccountEntity` functions are READ OFF THE
// SQL TEXT the functions build with `sql_query_builder` (quoted next to each
// contract) and the table definitions of crates/database/sql_migrations/V1__base.sql;
// they are stated over the ghost relation `UDbV` of prelude/upgrade_spec.rs.
// Every such function is named by a `//@pin` line of units/upgrade.vrs: if its
// text changes, the unit answers UNDECIDED.  The `EventEntity` contracts are the
// ones of prelude/dblog_types.rs, the `FolderEntity::insert_secret_by_row_id`
// upsert is the one of prelude/dbvault_types.rs (same pins), restated over the
// product relation (those files fix `Connection@` to ONE of the two relations
// and cannot be included here).
// ===========================================================================

/// async_sqlite::rusqlite::Error (rusqlite 0.37.0) — opaque
#[derive(Debug)]
pub struct SqlError { pub _p: () }
/// async_sqlite::Error (async-sqlite 0.5.3 src/error.rs) — opaque
#[derive(Debug)]
pub struct AsyncSqliteError { pub _p: () }
/// uuid::Error (uuid-1.18.1) — opaque
#[derive(Debug)]
pub struct UuidError { pub _p: () }
/// sos_backend::Error (crates/backend/src/error.rs) — opaque: the error type of `BackendEventLog`
#[derive(Debug)]
pub struct BackendError { pub _p: () }

// ---- time text (as prelude/dblog_types.rs; PINNED) ------------------------------------------------
/// the instant has an RFC 3339 text (`time` 0.3 `well_known::Rfc3339`: years 0..=9999); a property of the
/// VALUE only (formatting is a function)
pub uninterp spec fn rfc3339_ok(t: Instant) -> bool;
impl UtcDateTime {
    /// crates/core/src/date_time.rs `now` = `OffsetDateTime::now_utc()`: the clock — any instant
    #[verifier::external_body]
    pub fn now() -> (r: UtcDateTime) { unimplemented!() }
    /// crates/core/src/date_time.rs `to_rfc3339` = `OffsetDateTime::format(&Rfc3339)`.
    /// ASSUMED: the text parses back to the same instant (prelude/dblog_types.rs); whether formatting
    /// succeeds depends on the instant only.
    #[verifier::external_body]
    pub fn to_rfc3339(&self) -> (r: CResult<String>)
        ensures
            r matches Ok(s) ==> parse_time(s@) == Some(self.0@),
            r is Ok <==> rfc3339_ok(self.0@),
    { unimplemented!() }
}

// ---- std helpers (R12: exact std meaning; as prelude/dblog_types.rs / dbvault_types.rs) ---------------------
/// R12: `$s.to_vec()` on `&[u8]`
#[verifier::external_body]
pub fn vbytes_to_vec(s: &[u8]) -> (r: Vec<u8>)
    ensures r@ == s@,
{ s.to_vec() }
/// R12: `$s.to_vec()` on `&[u8; 32]`
#[verifier::external_body]
pub fn varr_to_vec(s: &[u8; 32]) -> (r: Vec<u8>)
    ensures r@ == s@,
{ s.to_vec() }
/// R12: `$s.to_string()` for `$s: &str` (alloc `impl ToString for str`): the same characters
#[verifier::external_body]
pub fn str_to_string(s: &str) -> (r: String)
    ensures r@ == s@,
{ s.to_string() }
/// R12: `$x.to_le_bytes().to_vec()` on a `u64`
#[verifier::external_body]
pub fn u64_le_vec(x: u64) -> (r: Vec<u8>)
    ensures r@ == le64(x),
{ x.to_le_bytes().to_vec() }
/// R12: `$o.cloned()` on `Option<&String>` (core/src/option.rs)
#[verifier::external_body]
pub fn opt_string_cloned(o: Option<&String>) -> (r: Option<String>)
    ensures (r is Some <==> o is Some), r is Some ==> r->Some_0@ == o->Some_0@,
{ o.cloned() }
/// R12: `$o.map($f)` on `Option<&Seed>` (core/src/option.rs: `Some(x) => Some(f(x))`, `None => None`); the closure
/// stays the repository's text and is checked against the `ensures` the rewrite gives it
pub fn opt_map_seed<F: FnOnce(&Seed) -> Vec<u8>>(o: Option<&Seed>, f: F) -> (r: Option<Vec<u8>>)
    requires o matches Some(s) ==> f.requires((s,)),
    ensures (r is Some <==> o is Some), o matches Some(s) ==> f.ensures((s,), r->Some_0),
{ match o { Some(s) => Some(f(s)), None => None } }
impl Uuid {
    /// `ToString` through `impl Display for Uuid` (uuid-1.18.1 src/fmt.rs): hyphenated lower-case hex
    #[verifier::external_body]
    pub fn to_string(&self) -> (r: String)
        ensures r@ == uuid_text(self.0@),
    { unimplemented!() }
}
impl Cipher {
    /// `ToString` through `impl fmt::Display for Cipher` (crates/core/src/crypto/cipher/mod.rs:117, PINNED)
    #[verifier::external_body]
    pub fn to_string(&self) -> (r: String)
        ensures r@ == cipher_text(*self),
    { unimplemented!() }
}
impl KeyDerivation {
    /// `ToString` through `impl fmt::Display for KeyDerivation` (crates/core/src/crypto/key_derivation.rs:78, PINNED)
    #[verifier::external_body]
    pub fn to_string(&self) -> (r: String)
        ensures r@ == kdf_text(*self),
    { unimplemented!() }
}
/// R12: `vault.iter()` (crates/vault/src/vault.rs:800 = `self.contents.data.iter()`, indexmap 2.12.0
/// `IndexMap::iter`: "Return an iterator over the key-value pairs of the map, in their order") (PINNED)
#[verifier::external_body]
pub fn vault_entries(vault: &Vault) -> (r: Vec<(&Uuid, &VaultCommit)>)
    ensures r@.len() == vault@.secrets.len(),
        forall|i: int| 0 <= i < r@.len() ==> (#[trigger] r@[i]).0.0@ == vault@.secrets[i].0 && (*r@[i].1)@ == vault@.secrets[i].1,
{ unimplemented!() }
/// `std::collections::HashMap<K, V>` — opaque here: `create_folder` only hands the map of
/// `insert_folder_secrets` (secret id -> rowid of folder_secrets) through; no property mentions it
#[verifier::external_body]
#[verifier::reject_recursive_types(K)]
#[verifier::reject_recursive_types(V)]
pub struct HashMap<K, V> { _p: core::marker::PhantomData<(K, V)> }

// ---- the file-system event log behind `Arc<RwLock<..>>` -------------------------------------------------
/// `tokio::sync::RwLock<T>` (tokio 1.48 src/sync/rwlock.rs): `read().await` waits for shared access and
/// gives a guard that derefs to the value.  The stand-in hands out the shared reference itself.
#[verifier::external_body]
#[verifier::reject_recursive_types(T)]
pub struct RwLock<T> { _p: core::marker::PhantomData<T> }
impl<T> RwLock<T> {
    /// the value behind the lock while the importer reads it (nobody writes the source account during an upgrade)
    pub uninterp spec fn inner(&self) -> T;
    #[verifier::external_body]
    pub fn read(&self) -> (r: &T)
        ensures *r == self.inner(),
    { unimplemented!() }
}
/// `std::sync::Arc<T>`: shared pointer; `Deref<Target = T>` (method calls go to the value)
pub struct Arc<T> { pub v: T }
impl<T> Arc<T> {
    pub open spec fn val(&self) -> T { self.v }
}
impl<T> Arc<RwLock<T>> {
    /// `event_log.read()` on an `Arc<RwLock<T>>`: auto-deref to `RwLock::read`
    pub fn read(&self) -> (r: &T)
        ensures *r == self.v.inner(),
    { self.v.read() }
    /// the log behind the handle
    pub open spec fn log(&self) -> T { self.v.inner() }
}

/// sos_core::events::{AccountEvent, DeviceEvent, FileEvent} (crates/core/src/events/): the decoded event the
/// stream pairs with each record; `collect_*_events` drops it (`record?.0`).  Opaque.
#[verifier::external_body]
pub struct AccountEvent { _p: () }
#[verifier::external_body]
pub struct DeviceEvent { _p: () }
#[verifier::external_body]
pub struct FileEvent { _p: () }

/// sos_backend::BackendEventLog<T> (crates/backend/src/event_log.rs:34), here always its `FileSystem` arm
/// (`FileSystemEventLog<T, Error>`, the account being upgraded lives on the file system).
#[verifier::external_body]
#[verifier::reject_recursive_types(T)]
pub struct BackendEventLog<T> { _p: core::marker::PhantomData<T> }
pub type AccountEventLog = BackendEventLog<AccountEvent>;
pub type DeviceEventLog = BackendEventLog<DeviceEvent>;
pub type FolderEventLog = BackendEventLog<WriteEvent>;
pub type FileEventLog = BackendEventLog<FileEvent>;
/// `BoxStream<'_, Result<(EventRecord, T), Error>>` after `pin_mut!` (R8): `items()` is everything the
/// stream will yield, `pos()` how much has been taken
#[verifier::external_body]
#[verifier::reject_recursive_types(T)]
pub struct EventStream<T> { _p: core::marker::PhantomData<T> }
impl<T> EventStream<T> {
    pub uninterp spec fn items(&self) -> Seq<core::result::Result<(EventRecord, T), BackendError>>;
    pub uninterp spec fn pos(&self) -> nat;
    /// `StreamExt::next().await`
    #[verifier::external_body]
    pub fn next(&mut self) -> (r: Option<core::result::Result<(EventRecord, T), BackendError>>)
        ensures
            final(self).items() == old(self).items(),
            old(self).pos() < old(self).items().len() ==>
                r == Some(old(self).items()[old(self).pos() as int]) && final(self).pos() == old(self).pos() + 1,
            old(self).pos() >= old(self).items().len() ==> r is None && final(self).pos() == old(self).pos(),
    { unimplemented!() }
}
impl<T> BackendEventLog<T> {
    /// THE file-system log: its records in append order, as (time, commit hash, event bytes) — the abstract
    /// log `Log` of the units `log` (file system) and `dblog` (database)
    pub uninterp spec fn records(&self) -> Log;
    /// everything `event_stream(false)` yields for this log
    pub uninterp spec fn yields(&self) -> Seq<core::result::Result<(EventRecord, T), BackendError>>;
    /// the producer task reads the log file to its end without an I/O error
    pub uninterp spec fn readable(&self) -> bool;

    /// crates/backend/src/event_log.rs:206 `event_stream` -> crates/filesystem/src/event_log.rs:171
    /// `event_stream` = `record_stream(reverse)` (:143) `.try_filter_map(decode_event)` — NOT under contract
    /// (tokio::spawn + mpsc channel + async closure); this is its ASSUMED contract, read off that text
    /// (PINNED): the task walks the log file front to back (`self.iter(false)`), sends `Ok(record)` per row
    /// (time, commit and event bytes as stored), the adapter turns each into `Ok((record, event))` or the
    /// `Err` of decoding the event.  A READ error ends the task and closes the channel WITHOUT an `Err`
    /// item (`fwd_stream_of`, prelude/upgrade_spec.rs).  Only `reverse == false` is modelled.
    #[verifier::external_body]
    pub fn event_stream(&self, reverse: bool) -> (r: EventStream<T>)
        requires !reverse,
        ensures
            r.pos() == 0,
            r.items() == self.yields(),
            fwd_stream_of(self.yields(), self.records(), self.readable()),
    { unimplemented!() }
}

// ---- connection / transaction (as prelude/dblog_types.rs, over the product relation) -----------------------
/// rusqlite::Connection (0.37.0).  Ghost state: the committed content of the database.
#[verifier::external_body]
pub struct Connection { _p: () }
impl View for Connection {
    type V = UDbV;
    uninterp spec fn view(&self) -> UDbV;
}
/// rusqlite::Transaction (0.37.0 src/transaction.rs): statements run through the transaction see and
/// change its working state `cur()`; `commit` makes the working state the connection's state; dropping
/// the value without `commit` rolls back.  R19: the stand-in does not borrow the connection; the
/// functions that write are handed `&mut Transaction` (rusqlite writes through `&Transaction`; the ghost
/// state needs `&mut`).
#[verifier::external_body]
pub struct Transaction<'conn> { _p: core::marker::PhantomData<&'conn ()> }
impl<'conn> Transaction<'conn> {
    pub uninterp spec fn cur(&self) -> UDbV;
    /// `Transaction::commit` (COMMIT).  On failure the transaction is dropped: rollback.
    #[verifier::external_body]
    pub fn commit(self, conn: &mut Connection) -> (r: core::result::Result<(), SqlError>)
        ensures
            r is Ok ==> final(conn)@ == self.cur(),
            r is Err ==> final(conn)@ == old(conn)@,
    { unimplemented!() }
}
impl Connection {
    /// `Connection::transaction(&mut self)`
    #[verifier::external_body]
    pub fn transaction<'conn>(&mut self) -> (r: core::result::Result<Transaction<'conn>, SqlError>)
        ensures
            final(self)@ == old(self)@,
            r matches Ok(tx) ==> tx.cur() == old(self)@,
    { unimplemented!() }
}

// ---- EventEntity: PINNED SQL (contracts of prelude/dblog_types.rs) -------------------------------------------
/// crates/database/src/entity/event.rs:162 `EventEntity<'conn, C>`; `new(&c)` stores the handle.  R19: the
/// functions that write are handed the transaction whose working state they change, as FIRST argument.
pub struct EventEntity { pub _p: () }
impl EventEntity {
    /// event.rs:193 `new`: stores the reference
    pub fn new<C>(conn: &C) -> (r: EventEntity) { EventEntity { _p: () } }

    // pinned SQL (event.rs:227 `insert_events` + :356 `create_events`):
    //   "INSERT INTO <table> (<id_column>, created_at, commit_hash, event) VALUES (?1, ?2, ?3, ?4)"
    // executed once per element of `events`, in order, bound: (id, created_at, commit_hash, event_bytes).
    // <table> / <id_column> = `EventTable::from(log_type)` .as_str() / .id_column() (:36, :51, :65):
    //   Account -> account_events.account_id, Identity | Folder(_) -> folder_events.folder_id,
    //   Device -> device_events.account_id, Files -> file_events.account_id.
    // `event_id INTEGER PRIMARY KEY NOT NULL` is the rowid alias: the new rows follow all present rows in
    // `ORDER BY event_id ASC`.  Every other table is untouched.
    // event.rs:246 / :255 / :264 / :274: `self.insert_events(<fixed log type>, id, events)` with
    // EventLogType::Account / ::Identity (folder events) / ::Device / ::Files.
    #[verifier::external_body]
    pub fn insert_account_events(&self, tx: &mut Transaction, account_id: i64, events: &[EventRecordRow]) -> (r: core::result::Result<Vec<i64>, SqlError>)
        ensures r is Ok ==> final(tx).cur() == (UDbV { ev: sql_insert(old(tx).cur().ev, Tbl::AccountEvents, account_id as int, rowvs(events@)), ..old(tx).cur() }),
    { unimplemented!() }
    #[verifier::external_body]
    pub fn insert_folder_events(&self, tx: &mut Transaction, folder_id: i64, events: &[EventRecordRow]) -> (r: core::result::Result<Vec<i64>, SqlError>)
        ensures r is Ok ==> final(tx).cur() == (UDbV { ev: sql_insert(old(tx).cur().ev, Tbl::FolderEvents, folder_id as int, rowvs(events@)), ..old(tx).cur() }),
    { unimplemented!() }
    #[verifier::external_body]
    pub fn insert_device_events(&self, tx: &mut Transaction, account_id: i64, events: &[EventRecordRow]) -> (r: core::result::Result<Vec<i64>, SqlError>)
        ensures r is Ok ==> final(tx).cur() == (UDbV { ev: sql_insert(old(tx).cur().ev, Tbl::DeviceEvents, account_id as int, rowvs(events@)), ..old(tx).cur() }),
    { unimplemented!() }
    #[verifier::external_body]
    pub fn insert_file_events(&self, tx: &mut Transaction, account_id: i64, events: &[EventRecordRow]) -> (r: core::result::Result<Vec<i64>, SqlError>)
        ensures r is Ok ==> final(tx).cur() == (UDbV { ev: sql_insert(old(tx).cur().ev, Tbl::FileEvents, account_id as int, rowvs(events@)), ..old(tx).cur() }),
    { unimplemented!() }
}
pub open spec fn rowvs(s: Seq<EventRecordRow>) -> Seq<RowV> { Seq::new(s.len(), |i: int| s[i].rowv()) }

// ---- FolderEntity: PINNED SQL -------------------------------------------------------------------------
/// crates/database/src/entity/folder.rs:326 `FolderEntity<'conn, C>` (`conn: &'conn C`).  R19: the stand-in
/// does not keep the borrow; every function that writes is handed the transaction as FIRST argument.
pub struct FolderEntity { pub _p: () }
impl FolderEntity {
    /// entity/folder.rs:465 `new`: stores the reference
    pub fn new<C>(conn: &C) -> (r: FolderEntity) { FolderEntity { _p: () } }

    /// PINNED SQL (entity/folder.rs:637 `insert_folder`):
    ///   "INSERT INTO folders (account_id, created_at, modified_at, identifier, name, salt, meta, seed,
    ///    version, cipher, kdf, flags) VALUES (?1, ?2, ?3, ?4, ?5, ?6, ?7, ?8, ?9, ?10, ?11, ?12)"
    ///   bound: (account_id, then the eleven fields of `folder_row` in that order); `Ok(last_insert_rowid())`.
    /// `folders.identifier` is UNIQUE (V1__base.sql:80): the statement fails when a row with that identifier
    /// exists.  `folder_id INTEGER PRIMARY KEY` (:74) is the rowid alias: SQLite gives the new row an id no row
    /// of the table has.  A failed statement changes nothing.
    #[verifier::external_body]
    pub fn insert_folder(&self, tx: &mut Transaction, account_id: i64, folder_row: &FolderRow) -> (r: StdResult<i64, SqlError>)
        ensures
            r matches Ok(id) ==> !old(tx).cur().fold.folders.contains_key(folder_row.cols().identifier)
                && rid_fresh(old(tx).cur().fold, id as int)
                && final(tx).cur() == sql_insert_folder(old(tx).cur(), account_id as int, id as int, folder_row.created(), folder_row.cols()),
            r is Err ==> final(tx).cur() == old(tx).cur(),
    { unimplemented!() }

    /// PINNED (entity/folder.rs:725 `insert_folder_secrets`): for every row of `rows`, in order,
    /// `secret_row.identifier.parse::<SecretId>()?` then `insert_secret_by_row_id(folder_id, secret_row)?` (:751):
    ///   "INSERT INTO folder_secrets (folder_id, identifier, commit_hash, meta, secret, created_at, modified_at)
    ///    VALUES (?1, ?2, ?3, ?4, ?5, ?6, ?7)
    ///    ON CONFLICT (identifier) DO UPDATE SET folder_id=excluded.folder_id, commit_hash=excluded.commit_hash,
    ///    meta=excluded.meta, secret=excluded.secret, modified_at=excluded.modified_at"
    /// (the upsert of prelude/dbvault_types.rs / dbvault_spec.rs `sql_upsert_secret`; `folder_secrets.identifier`
    /// is UNIQUE over the WHOLE table, V1__base.sql:126).  The result maps each parsed identifier to
    /// `last_insert_rowid()`.  On `Err` some of the upserts may have run (the caller drops the transaction).
    #[verifier::external_body]
    pub fn insert_folder_secrets(&self, tx: &mut Transaction, folder_id: i64, rows: &[SecretRow]) -> (r: DbResult<HashMap<SecretId, i64>>)
        ensures
            r is Ok ==> final(tx).cur() == (UDbV { fold: sql_upsert_all(old(tx).cur().fold, folder_id as int, colsv(rows@)), ..old(tx).cur() }),
    { unimplemented!() }
}
pub open spec fn colsv(rows: Seq<SecretRow>) -> Seq<SecretColsV> { Seq::new(rows.len(), |i: int| rows[i].cols()) }

// ---- `import_account`: the account tables and the tables no clause of the kernel mentions ------------------------
impl<K, V> HashMap<K, V> {
    /// `HashMap::new()`
    #[verifier::external_body]
    pub fn new() -> (r: HashMap<K, V>) { unimplemented!() }
    /// `HashMap::insert`
    #[verifier::external_body]
    pub fn insert(&mut self, k: K, v: V) -> (r: Option<V>) { unimplemented!() }
}
/// crates/database/src/entity/account.rs:259 `AccountEntity<'conn, C>`.  R19 as for the other entities.
pub struct AccountEntity { pub _p: () }
impl AccountEntity {
    /// account.rs:264 `new`: stores the reference
    pub fn new<C>(conn: &C) -> (r: AccountEntity) { AccountEntity { _p: () } }
    /// PINNED SQL (account.rs:328 `insert`):
    ///   "INSERT INTO accounts (created_at, modified_at, identifier, name) VALUES (?1, ?2, ?3, ?4)"
    ///   bound: the four fields of `row`; `Ok(last_insert_rowid())`.  `account_id INTEGER PRIMARY KEY` (V1__base.sql:21)
    /// is the rowid alias: the new row gets an id no row of the table has.  A failed statement changes nothing.
    #[verifier::external_body]
    pub fn insert(&self, tx: &mut Transaction, row: &AccountRow) -> (r: StdResult<i64, SqlError>)
        ensures
            r matches Ok(id) ==> account_rid_fresh(old(tx).cur().accounts, id as int)
                && final(tx).cur() == (UDbV { accounts: old(tx).cur().accounts.push(AccountRowV { row_id: id as int, identifier: row.ident(), name: row.label() }), ..old(tx).cur() }),
            r is Err ==> final(tx).cur() == old(tx).cur(),
    { unimplemented!() }
    /// PINNED SQL (account.rs:350 `insert_login_folder`):
    ///   "INSERT INTO account_login_folder (account_id, folder_id) VALUES (?1, ?2)"     bound: [account_id, folder_id]
    #[verifier::external_body]
    pub fn insert_login_folder(&self, tx: &mut Transaction, account_id: i64, folder_id: i64) -> (r: StdResult<i64, SqlError>)
        ensures
            r is Ok ==> final(tx).cur() == (UDbV { login: old(tx).cur().login.push((account_id as int, folder_id as int)), ..old(tx).cur() }),
            r is Err ==> final(tx).cur() == old(tx).cur(),
    { unimplemented!() }
    /// PINNED SQL (account.rs:379 `insert_device_folder`):
    ///   "INSERT INTO account_device_folder (account_id, folder_id) VALUES (?1, ?2)"    bound: [account_id, folder_id]
    #[verifier::external_body]
    pub fn insert_device_folder(&self, tx: &mut Transaction, account_id: i64, folder_id: i64) -> (r: StdResult<i64, SqlError>)
        ensures
            r is Ok ==> final(tx).cur() == (UDbV { device: old(tx).cur().device.push((account_id as int, folder_id as int)), ..old(tx).cur() }),
            r is Err ==> final(tx).cur() == old(tx).cur(),
    { unimplemented!() }
}
/// crates/database/src/entity/{preference,system_message,server}.rs row types — opaque (no clause of the kernel mentions them)
#[verifier::external_body]
pub struct PreferenceRow { _p: () }
#[verifier::external_body]
pub struct SystemMessageRow { _p: () }
/// crates/database/src/entity/server.rs:18 `ServerRow` (row_id, created_at, modified_at, name, url): viewed as (name, url)
#[verifier::external_body]
pub struct ServerRow { _p: () }
impl View for ServerRow {
    type V = ServerV;
    uninterp spec fn view(&self) -> ServerV;
}
pub open spec fn server_rows_v(rows: Seq<ServerRow>) -> Seq<ServerV> { Seq::new(rows.len(), |i: int| rows[i]@) }
pub open spec fn opt_server_rows_v(o: Option<Vec<ServerRow>>) -> Seq<ServerV> { match o { Some(v) => server_rows_v(v@), None => Seq::<ServerV>::empty() } }
/// only the abstract component `fold.rest` (= every table other than the event tables, folders, folder_secrets and
/// the three account tables) may differ
pub open spec fn only_rest_differs(a: UDbV, b: UDbV) -> bool {
    b == (UDbV { fold: VDbV { rest: b.fold.rest, ..a.fold }, ..a })
}
/// preference.rs:196 `insert_preferences` -> :162 `insert_preference`: "INSERT INTO preferences (account_id, created_at,
/// modified_at, key, json_data) VALUES (?1, ?2, ?3, ?4, ?5)" per row (PINNED): writes the table `preferences` only.
/// (`rows: &[PreferenceRow]` in the source; the call site passes `&Vec<_>`.)
pub struct PreferenceEntity { pub _p: () }
impl PreferenceEntity {
    pub fn new<C>(conn: &C) -> (r: PreferenceEntity) { PreferenceEntity { _p: () } }
    #[verifier::external_body]
    pub fn insert_preferences(&self, tx: &mut Transaction, account_id: Option<i64>, rows: &Vec<PreferenceRow>) -> (r: StdResult<(), SqlError>)
        ensures only_rest_differs(old(tx).cur(), final(tx).cur()),
    { unimplemented!() }
}
/// system_message.rs:188 `insert_system_messages` -> :157: "INSERT INTO system_messages (account_id, created_at, modified_at,
/// key, json_data) VALUES (?1 .. ?5)" per row (PINNED): writes the table `system_messages` only
pub struct SystemMessageEntity { pub _p: () }
impl SystemMessageEntity {
    pub fn new<C>(conn: &C) -> (r: SystemMessageEntity) { SystemMessageEntity { _p: () } }
    #[verifier::external_body]
    pub fn insert_system_messages(&self, tx: &mut Transaction, account_id: i64, rows: &[SystemMessageRow]) -> (r: StdResult<(), SqlError>)
        ensures only_rest_differs(old(tx).cur(), final(tx).cur()),
    { unimplemented!() }
}
/// PINNED SQL (server.rs:169 `insert_servers` -> :146 `insert_server`):
///   "INSERT INTO servers (account_id, created_at, modified_at, name, url) VALUES (?1, ?2, ?3, ?4, ?5)"
/// once per element of `servers`, in order, bound: (account_id, created_at, modified_at, name, url) of the row.
/// Writes the table `servers` only; `server_id INTEGER PRIMARY KEY` is the rowid alias (new rows follow the present ones).
pub struct ServerEntity { pub _p: () }
impl ServerEntity {
    pub fn new<C>(conn: &C) -> (r: ServerEntity) { ServerEntity { _p: () } }
    #[verifier::external_body]
    pub fn insert_servers(&self, tx: &mut Transaction, account_id: i64, rows: &[ServerRow]) -> (r: StdResult<(), SqlError>)
        ensures r is Ok ==> final(tx).cur() == (UDbV { servers: old(tx).cur().servers + acct_servers(account_id as int, server_rows_v(rows@)), ..old(tx).cur() }),
    { unimplemented!() }
}

// ---- `import_account`, the part before the transaction: the file-system account ---------------------------------
/// std::path::PathBuf — opaque
#[verifier::external_body]
pub struct PathBuf { _p: () }
/// the ghost file system the importer READS (it writes nothing under the account directory): the bytes of the file at
/// a path / whether it exists.  Constant during one `import_account` (nobody writes the source account during an upgrade).
pub uninterp spec fn file_bytes(p: PathBuf) -> Seq<u8>;
pub uninterp spec fn file_exists(p: PathBuf) -> bool;
/// sos_vfs (crates/vfs/src/os.rs = tokio::fs): `read` gives the bytes of the file, `try_exists` whether it exists
pub mod vfs {
    use super::*;
    #[verifier::external_body]
    pub fn read(p: PathBuf) -> (r: pre::Result<Vec<u8>>)
        ensures r matches Ok(b) ==> b@ == file_bytes(p),
    { unimplemented!() }
    #[verifier::external_body]
    pub fn try_exists(p: PathBuf) -> (r: pre::Result<bool>)
        ensures r matches Ok(b) ==> b == file_exists(p),
    { unimplemented!() }
}
/// `decode::<Vault>(bytes)` (crates/vault/src/encoding/v1/vault.rs, under contract in unit `vaultcodec`): here only a
/// NAME for the vault a file holds
pub uninterp spec fn dec_vault(b: Seq<u8>) -> Option<VaultV>;
impl Decoded for Vault {
    open spec fn dec_view(b: Seq<u8>) -> Option<VaultV> { dec_vault(b) }
}
/// the vault stored in the file at `p`
pub open spec fn fs_vault(p: PathBuf) -> VaultV { dec_vault(file_bytes(p))->Some_0 }

/// sos_core::Paths (crates/core/src/paths.rs) behind `Arc`: the locations of an account's files.  Opaque; each
/// accessor is a function of the value.
#[verifier::external_body]
pub struct Paths { _p: () }
impl Arc<Paths> {
    pub uninterp spec fn identity_vault_p(&self) -> PathBuf;
    pub uninterp spec fn account_events_p(&self) -> PathBuf;
    pub uninterp spec fn device_file_p(&self) -> PathBuf;
    pub uninterp spec fn device_events_p(&self) -> PathBuf;
    pub uninterp spec fn file_events_p(&self) -> PathBuf;
    pub uninterp spec fn remote_origins_p(&self) -> PathBuf;
    pub uninterp spec fn is_server_v(&self) -> bool;
    #[verifier::external_body]
    pub fn remote_origins(&self) -> (r: PathBuf) ensures r == self.remote_origins_p() { unimplemented!() }
    #[verifier::external_body]
    pub fn is_global(&self) -> (r: bool) { unimplemented!() }
    #[verifier::external_body]
    pub fn is_server(&self) -> (r: bool) ensures r == self.is_server_v() { unimplemented!() }
    #[verifier::external_body]
    pub fn identity_vault(&self) -> (r: PathBuf) ensures r == self.identity_vault_p() { unimplemented!() }
    #[verifier::external_body]
    pub fn account_events(&self) -> (r: PathBuf) ensures r == self.account_events_p() { unimplemented!() }
    #[verifier::external_body]
    pub fn device_file(&self) -> (r: PathBuf) ensures r == self.device_file_p() { unimplemented!() }
    #[verifier::external_body]
    pub fn device_events(&self) -> (r: PathBuf) ensures r == self.device_events_p() { unimplemented!() }
    #[verifier::external_body]
    pub fn file_events(&self) -> (r: PathBuf) ensures r == self.file_events_p() { unimplemented!() }
    /// the (summary, path) pairs `list_local_folders` returns for this account
    pub uninterp spec fn user_folders_v(&self) -> Seq<(Summary, PathBuf)>;
}
/// sos_vault::list_local_folders (crates/vault/src/lib.rs:82): every `*.vault` file of the vaults directory with the
/// summary read from THAT file's header (`Header::read_summary_file(entry.path())`, :91)
#[verifier::external_body]
pub fn list_local_folders(paths: &Arc<Paths>) -> (r: VResult<Vec<(Summary, PathBuf)>>)
    ensures r matches Ok(v) ==> v@ == paths.user_folders_v()
        && forall|i: int| 0 <= i < v@.len() ==> (dec_vault(file_bytes((#[trigger] v@[i]).1)) matches Some(vv) ==> v@[i].0@ == vv.head.summary),
{ unimplemented!() }

/// sos_core::AccountId (crates/core/src/account.rs:14): 20 bytes; `Display` = "0x" + 40 hex digits
#[verifier::external_body]
pub struct AccountId { _p: () }
pub uninterp spec fn account_text(a: AccountId) -> Seq<char>;
impl AccountId {
    /// `ToString` through `impl fmt::Display for AccountId` (crates/core/src/account.rs)
    #[verifier::external_body]
    pub fn to_string(&self) -> (r: String) ensures r@ == account_text(*self) { unimplemented!() }
}
/// sos_core::PublicIdentity (crates/core/src/identity.rs:12): account id + label
#[verifier::external_body]
pub struct PublicIdentity { _p: () }
impl PublicIdentity {
    pub uninterp spec fn id_v(&self) -> AccountId;
    pub uninterp spec fn label_v(&self) -> Seq<char>;
    /// identity.rs:27
    #[verifier::external_body]
    pub fn account_id(&self) -> (r: &AccountId) ensures *r == self.id_v() { unimplemented!() }
    /// identity.rs:32
    #[verifier::external_body]
    pub fn label(&self) -> (r: &str) ensures r@ == self.label_v() { unimplemented!() }
}
/// crates/database_upgrader/src/lib.rs `UpgradeOptions` — opaque (only the server list remapping reads it)
pub struct UpgradeOptions { pub remap_servers: HashMap<Url, Url> }

// ---- the server list (db_import.rs:301-324) ------------------------------------------------------------------
/// url::Url (url 2.5): viewed as its text (`Display` = the serialization, what `ServerRow::try_from` stores)
#[verifier::external_body]
pub struct Url { _p: () }
impl View for Url {
    type V = Seq<char>;
    uninterp spec fn view(&self) -> Seq<char>;
}
impl Url {
    /// `ToString` through `impl Display for Url`
    #[verifier::external_body]
    pub fn to_string(&self) -> (r: String) ensures r@ == self@ { unimplemented!() }
}
impl Clone for Url {
    /// `#[derive(Clone)]`
    #[verifier::external_body]
    fn clone(&self) -> (r: Url) ensures r@ == self@ { unimplemented!() }
}
/// sos_core::Origin (crates/core/src/origin.rs:11 `struct Origin { name: String, url: Url }`), viewed as (name, url text)
#[verifier::external_body]
pub struct Origin { _p: () }
impl View for Origin {
    type V = ServerV;
    uninterp spec fn view(&self) -> ServerV;
}
pub open spec fn origins_v(l: Seq<Origin>) -> Seq<ServerV> { Seq::new(l.len(), |i: int| l[i]@) }
impl Origin {
    /// origin.rs:18 `new`: `Self { name, url }`
    #[verifier::external_body]
    pub fn new(name: String, url: Url) -> (r: Origin) ensures r@ == (ServerV { name: name@, url: url@ }) { unimplemented!() }
    /// origin.rs:28 `url`: `&self.url`
    #[verifier::external_body]
    pub fn url(&self) -> (r: &Url) ensures r@ == self@.url { unimplemented!() }
}
impl HashMap<Url, Url> {
    /// `UpgradeOptions::remap_servers` as a map from url text to url text (`Url: Eq + Hash` compare the serialization)
    pub uninterp spec fn urls(&self) -> Map<Seq<char>, Seq<char>>;
    /// `HashMap::get`
    #[verifier::external_body]
    pub fn get(&self, k: &Url) -> (r: Option<&Url>)
        ensures (r is Some <==> self.urls().contains_key(k@)), r matches Some(v) ==> v@ == self.urls()[k@],
    { unimplemented!() }
}
/// serde_json::Error — opaque
#[derive(Debug)]
pub struct JsonError { pub _p: () }
/// the server origins a remote-origins file holds (`serde_json::from_slice::<Vec<Origin>>`, a JSON array): a NAME for them
pub uninterp spec fn fs_origins(b: Seq<u8>) -> Seq<ServerV>;
/// R12: `serde_json::from_slice::<Vec<Origin>>(&buffer)`: the origins of the JSON array, in array order
#[verifier::external_body]
pub fn json_origins(b: &[u8]) -> (r: StdResult<Vec<Origin>, JsonError>)
    ensures r matches Ok(v) ==> origins_v(v@) == fs_origins(b@),
{ unimplemented!() }
impl ServerRow {
    /// R12: `origin.try_into()` = server.rs:41 `impl TryFrom<Origin> for ServerRow`: name = value.name().to_string(),
    /// url = value.url().to_string(), time stamps = now (PINNED)
    #[verifier::external_body]
    pub fn try_from(value: Origin) -> (r: DbResult<ServerRow>)
        ensures r matches Ok(row) ==> row@ == value@,
    { unimplemented!() }
}
/// R12: `$xs.into_iter().map($f).collect::<Vec<_>>()` on a `Vec`: `f` applied to every element, in order (verified, not
/// assumed).  The closure `$f` stays extracted code; the rewrite gives it a parameter type and an `ensures`.
pub fn vmap_into_collect<A, B, F: Fn(A) -> B>(xs: Vec<A>, f: F) -> (r: Vec<B>)
    requires forall|a: A| call_requires(f, (a,)),
    ensures r@.len() == xs@.len(), forall|i: int| 0 <= i < xs@.len() ==> call_ensures(f, (xs@[i],), #[trigger] r@[i]),
{
    let mut out: Vec<B> = Vec::new();
    let ghost s = xs@;
    for x in it: xs
        invariant it.seq() == s, out@.len() == it.index@, forall|a: A| call_requires(f, (a,)),
            forall|j: int| 0 <= j < it.index@ ==> call_ensures(f, (s[j],), #[trigger] out@[j]),
    {
        out.push(f(x));
    }
    out
}
/// the `Some` values of a sequence of options, in order
pub open spec fn somes<B>(o: Seq<Option<B>>) -> Seq<B>
    decreases o.len(),
{
    if o.len() == 0 { Seq::empty() } else { match o.last() { Some(b) => somes(o.drop_last()).push(b), None => somes(o.drop_last()) } }
}
/// R12: `$xs.into_iter().filter_map($f).collect::<Vec<_>>()` on a `Vec`: `f` applied to every element, in order; the
/// `Some` results are kept, in order, the `None` results are dropped (verified, not assumed)
pub fn vfilter_map_into_collect<A, B, F: Fn(A) -> Option<B>>(xs: Vec<A>, f: F) -> (r: Vec<B>)
    requires forall|a: A| call_requires(f, (a,)),
    ensures exists|outs: Seq<Option<B>>| outs.len() == xs@.len() && (forall|i: int| 0 <= i < xs@.len() ==> call_ensures(f, (xs@[i],), #[trigger] outs[i])) && r@ == somes(outs),
{
    let mut out: Vec<B> = Vec::new();
    let ghost s = xs@;
    let ghost mut outs: Seq<Option<B>> = Seq::empty();
    for x in it: xs
        invariant it.seq() == s, outs.len() == it.index@, forall|a: A| call_requires(f, (a,)),
            forall|j: int| 0 <= j < it.index@ ==> call_ensures(f, (s[j],), #[trigger] outs[j]),
            out@ == somes(outs),
    {
        let o = f(x);
        proof { let n = outs.push(o); assert(n.drop_last() =~= outs); outs = n; }
        match o { Some(b) => { out.push(b); } None => {} }
    }
    out
}

/// db_import.rs:36 `enum AccountStorage { Server(ServerStorage), Client(ClientStorage) }` with db_import.rs:52
/// `impl StorageEventLogs for AccountStorage` (each method dispatches to the same method of the wrapped storage).
/// Stand-in: the FILE-SYSTEM account being upgraded; its five kinds of logs are functions of the value.
#[verifier::external_body]
pub struct AccountStorage { _p: () }
impl AccountStorage {
    pub uninterp spec fn identity_v(&self) -> FolderEventLog;
    pub uninterp spec fn account_v(&self) -> AccountEventLog;
    pub uninterp spec fn device_v(&self) -> DeviceEventLog;
    pub uninterp spec fn file_v(&self) -> FileEventLog;
    pub uninterp spec fn folder_v(&self, id: Seq<u8>) -> FolderEventLog;
    /// db_import.rs:55 -> `ServerStorage::identity_log` / `ClientStorage::identity_log`: the log of the identity folder
    #[verifier::external_body]
    pub fn identity_log(&self) -> (r: Result<Arc<RwLock<FolderEventLog>>>)
        ensures r matches Ok(a) ==> a.log() == self.identity_v(),
    { unimplemented!() }
    /// db_import.rs:62
    #[verifier::external_body]
    pub fn account_log(&self) -> (r: Result<Arc<RwLock<AccountEventLog>>>)
        ensures r matches Ok(a) ==> a.log() == self.account_v(),
    { unimplemented!() }
    /// db_import.rs:69
    #[verifier::external_body]
    pub fn device_log(&self) -> (r: Result<Arc<RwLock<DeviceEventLog>>>)
        ensures r matches Ok(a) ==> a.log() == self.device_v(),
    { unimplemented!() }
    /// db_import.rs:76
    #[verifier::external_body]
    pub fn file_log(&self) -> (r: Result<Arc<RwLock<FileEventLog>>>)
        ensures r matches Ok(a) ==> a.log() == self.file_v(),
    { unimplemented!() }
    /// db_import.rs:90: the log of the folder with that id
    #[verifier::external_body]
    pub fn folder_log(&self, id: &VaultId) -> (r: Result<Arc<RwLock<FolderEventLog>>>)
        ensures r matches Ok(a) ==> a.log() == self.folder_v(id.0@),
    { unimplemented!() }
}

/// async_sqlite::Client (0.5.3 src/client.rs): `conn_mut_and_then(func)` sends `func` to the connection thread, runs it
/// ONCE on the `&mut Connection` and hands its result back; when the channel is closed `func` does not run.
/// R19: the connection the client owns is threaded as `db`.
#[verifier::external_body]
pub struct Client { _p: () }
impl Client {
    #[verifier::external_body]
    pub fn conn_mut_and_then<F, T>(&self, db: &mut Connection, func: F) -> (r: Result<T>)
        where F: FnOnce(&mut Connection) -> Result<T>,
        requires func.requires((old(db),)),
        ensures
            r matches Ok(t) ==> func.ensures((old(db),), Ok(t)),
            r is Err ==> final(db)@ == old(db)@ || exists|e: Error| #![auto] func.ensures((old(db),), Err(e)),
    { unimplemented!() }
}

// ---- the parts of `import_account` no clause of the kernel mentions (declared block rewrites R20) ---------------------
/// db_import.rs:272-284: preferences.json -> `PreferenceRow`s.  Reads files only.
#[verifier::external_body]
pub fn load_account_preferences(paths: &Arc<Paths>) -> (r: Result<Option<Vec<PreferenceRow>>>) { unimplemented!() }
/// db_import.rs:286-299: system-messages.json -> `SystemMessageRow`s.  Reads files only.
#[verifier::external_body]
pub fn load_account_messages(paths: &Arc<Paths>) -> (r: Result<Option<Vec<SystemMessageRow>>>) { unimplemented!() }
/// db_import.rs:422-438: `ServerStorage::new(BackendTarget::Database(..), account_id)` /
/// `ClientStorage::new_unauthenticated(BackendTarget::Database(..), account_id)`: opens the imported account (loads the
/// account row, the folder rows and the commit trees of the logs).  ASSUMED FRAME: it does not touch the event tables,
/// the folder tables or the account tables.
#[verifier::external_body]
pub fn open_db_storage(paths: &Arc<Paths>, client: &mut Client, db: &mut Connection, account: &PublicIdentity) -> (r: Result<AccountStorage>)
    ensures only_rest_differs(old(db)@, final(db)@),
{ unimplemented!() }
