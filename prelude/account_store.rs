// ===========================================================================
// prelude/account_store.rs — stand-ins of unit `account` (module `c01`) for what the
// extracted account / client-storage code calls but that lives below the account layer.
// The storage behind the account is a GHOST VIEW built from contracts proved in other
// units: a folder is `Map<secret id, (meta, secret)>` (the rows opened with the folder
// key: unit clientsync `fsecrets`, unit vaultmem `read_spec`), the operations of
// `sos_backend::Folder` carry the labels proved there ([create_then_read],
// [update_then_read]/[upd_view], [delete_then_absent]/[del_view], [one_matching_event]).
// Everything `external_body` / `uninterp` / `axiom` / bodiless trait method contract
// here is an ASSUMPTION; each names the source that was read.
// Included at top level inside `mod spre { use super::*; .. }`, after prelude/types.rs
// and after the extracted `SecretRow`, `ReadEvent`, `AccessOptions`.
// ===========================================================================

// ---- ids ----------------------------------------------------------------------------
/// `impl View for Uuid` (prelude/types.rs gives the struct): its 16 bytes
impl View for Uuid {
    type V = Seq<u8>;
    open spec fn view(&self) -> Seq<u8> { self.0@ }
}
/// `uuid::Uuid` equality: derived `PartialEq` on the 16 bytes (uuid-1.x src/lib.rs)
impl PartialEq for Uuid {
    #[verifier::external_body]
    fn eq(&self, other: &Self) -> (r: bool)
        ensures r == (self@ == other@),
    { self.0 == other.0 }
}
impl vstd::std_specs::cmp::PartialEqSpecImpl for Uuid {
    open spec fn obeys_eq_spec() -> bool { true }
    open spec fn eq_spec(&self, other: &Uuid) -> bool { self@ == other@ }
}
/// R19 `SecretId::new_v4()` (uuid-1.x, feature v4: 122 random bits from the OS RNG) with a ghost
/// argument: the ids that exist when the call is made.  **Assumption RNG-UUID** (the idealisation
/// of Axiom RNG, prelude/vault_crypto.rs, for v4 UUIDs): a fresh id differs from every existing id.
#[verifier::external_body]
pub fn fresh_secret_id(Ghost(used): Ghost<ISet<Seq<u8>>>) -> (r: SecretId)
    ensures !used.contains(r@),
{ unimplemented!() }

// ---- error types (opaque; only constructed / converted) ---------------------------------
/// `sos_backend::Error` (crates/backend/src/error.rs, thiserror enum) — opaque
pub struct BackendError { pub _p: () }
/// `sos_core::Error` (crates/core/src/error.rs) — opaque
pub struct CoreError { pub _p: () }
/// `sos_backend::StorageError` = `sos_core::StorageError` (crates/core/src/error.rs): the variant constructed here + catch-all
pub enum StorageError { FolderNotFound(VaultId), Other }
/// `sos_core::AuthenticationError` (crates/core/src/error.rs:172)
pub enum AuthenticationError { NotAuthenticated, Other }
/// `sos_client_storage::Error` (crates/storage/client/src/error.rs, thiserror enum):
/// the variants constructed by the extracted code + catch-all
pub enum ClientError { NoOpenVault, SecretNotFound(SecretId), Other }
pub type ClResult<T> = core::result::Result<T, ClientError>;
pub type BkResult<T> = core::result::Result<T, BackendError>;
#[verifier::external]
impl core::fmt::Debug for BackendError { fn fmt(&self, f: &mut core::fmt::Formatter<'_>) -> core::fmt::Result { Ok(()) } }
#[verifier::external]
impl core::fmt::Debug for CoreError { fn fmt(&self, f: &mut core::fmt::Formatter<'_>) -> core::fmt::Result { Ok(()) } }
#[verifier::external]
impl core::fmt::Debug for StorageError { fn fmt(&self, f: &mut core::fmt::Formatter<'_>) -> core::fmt::Result { Ok(()) } }
#[verifier::external]
impl core::fmt::Debug for AuthenticationError { fn fmt(&self, f: &mut core::fmt::Formatter<'_>) -> core::fmt::Result { Ok(()) } }
#[verifier::external]
impl core::fmt::Debug for ClientError { fn fmt(&self, f: &mut core::fmt::Formatter<'_>) -> core::fmt::Result { Ok(()) } }
impl From<BackendError> for ClientError {
    /// `#[from] sos_backend::Error`
    #[verifier::external_body]
    fn from(_e: BackendError) -> ClientError { ClientError::Other }
}
impl From<CoreError> for ClientError {
    /// `#[from] sos_core::Error`
    #[verifier::external_body]
    fn from(_e: CoreError) -> ClientError { ClientError::Other }
}
impl From<StorageError> for ClientError {
    /// `#[from] sos_backend::StorageError`
    #[verifier::external_body]
    fn from(_e: StorageError) -> ClientError { ClientError::Other }
}
impl From<AuthenticationError> for ClientError {
    /// `#[from] sos_core::AuthenticationError`
    #[verifier::external_body]
    fn from(_e: AuthenticationError) -> ClientError { ClientError::Other }
}

/// R4: every panic!/unreachable! site becomes a call of this function (same text as prelude/base.rs)
#[verifier::external_body]
pub fn vpanic() -> !
    requires false,
{
    panic!()
}

// ---- plaintext value types ---------------------------------------------------------------
/// `sos_vault::secret::SecretMeta` (crates/vault/src/secret.rs): label, tags, kind, favorite, urn,
/// dates ... — opaque; the view is the whole value
#[verifier::external_body]
pub struct SecretMeta { _p: () }
#[verifier::external_body]
pub ghost struct SecretMetaV { _p: () }
impl View for SecretMeta { type V = SecretMetaV; uninterp spec fn view(&self) -> SecretMetaV; }
/// `pem::Pem` (pem-3: tag + contents) — opaque
#[verifier::external_body]
pub struct Pem { _p: () }
/// `sos_vault::secret::UserData` (secret.rs:645) — opaque
#[verifier::external_body]
pub struct UserData { _p: () }
/// the payload of the 15 variants of `Secret` the extracted code never matches — opaque
#[verifier::external_body]
pub struct SecretOther { _p: () }
/// `sos_vault::secret::Secret` (secret.rs:1089, 16 variants over third-party types): the `Pem` variant with its real
/// fields (secret.rs:1061; matched by local_account.rs:359 and :1490, whose text is extracted unchanged), the 15 other
/// variants collapsed into `Other`.  The VIEW stays abstract (nothing is said about how it depends on the variant).
pub enum Secret {
    Pem { certificates: Vec<Pem>, user_data: UserData },
    Other { inner: SecretOther },
}
#[verifier::external_body]
pub ghost struct SecretV { _p: () }
impl View for Secret { type V = SecretV; uninterp spec fn view(&self) -> SecretV; }
/// what `SecretMeta::touch` changes: `last_updated` only (secret.rs:421 `self.last_updated = Default::default()`)
pub uninterp spec fn touched(m: SecretMetaV) -> SecretMetaV;
impl SecretMeta {
    /// secret.rs:421
    #[verifier::external_body]
    pub fn touch(&mut self)
        ensures final(self)@ == touched(old(self)@),
    { unimplemented!() }
}
impl Clone for SecretMeta {
    /// `#[derive(Clone)]`
    #[verifier::external_body]
    fn clone(&self) -> (r: SecretMeta) ensures r@ == self@, { unimplemented!() }
}
impl Clone for Secret {
    /// `#[derive(Clone)]`
    #[verifier::external_body]
    fn clone(&self) -> (r: Secret) ensures r@ == self@, { unimplemented!() }
}
/// `if let Secret::Pem { certificates, .. } = &secret { if certificates.is_empty() { .. } }`
/// (local_account.rs:359 and :1490) as ONE call: a PEM secret without certificates.  No longer used by unit account
/// (the check is extracted text over the `Secret::Pem` variant above); kept for reference
pub uninterp spec fn empty_pem(s: SecretV) -> bool;
#[verifier::external_body]
pub fn secret_is_empty_pem(secret: &Secret) -> (r: bool)
    ensures r == empty_pem(secret@),
{ unimplemented!() }

/// the decrypted value a folder holds for a secret id
pub type SecV = (SecretMetaV, SecretV);

// ---- folder summaries -------------------------------------------------------------------
/// `sos_vault::Summary` (vault.rs:172): version, id, name, cipher, kdf, flags — id and flags are read here
#[verifier::external_body]
pub struct Summary { _p: () }
impl Summary {
    pub uninterp spec fn sid(&self) -> Seq<u8>;
    pub uninterp spec fn sflags(&self) -> u64;
    /// vault.rs `Summary::id`: `&self.id`
    #[verifier::external_body]
    pub fn id(&self) -> (r: &VaultId)
        ensures r@ == self.sid(),
    { unimplemented!() }
    /// vault.rs `Summary::flags`: `&self.flags`
    #[verifier::external_body]
    pub fn flags(&self) -> (r: &VaultFlags)
        ensures r.b == self.sflags(),
    { unimplemented!() }
}
impl Summary {
    pub uninterp spec fn sname(&self) -> Seq<char>;
    /// vault.rs `Summary::name`: `&self.name`
    #[verifier::external_body]
    pub fn name(&self) -> (r: &str)
        ensures r@ == self.sname(),
    { unimplemented!() }
}
impl Clone for Summary {
    /// `#[derive(Clone)]`
    #[verifier::external_body]
    fn clone(&self) -> (r: Summary) ensures r == *self, { unimplemented!() }
}
/// bit values of `bitflags! VaultFlags` (crates/core/src/lib.rs:113)
pub spec const FLAG_DEFAULT: u64 = 1;
pub spec const FLAG_ARCHIVE: u64 = 4;
pub spec const FLAG_AUTHENTICATOR: u64 = 8;
pub spec const FLAG_CONTACT: u64 = 16;
pub spec const FLAG_IDENTITY: u64 = 2;
pub spec const FLAG_SYSTEM: u64 = 32;
pub spec const FLAG_DEVICE: u64 = 64;
pub spec const FLAG_NO_SYNC: u64 = 128;
pub spec const FLAG_LOCAL: u64 = 256;
pub spec const FLAG_SHARED: u64 = 512;
pub open spec fn has_flag(b: u64, bit: u64) -> bool { b & bit == bit }
impl VaultFlags {
    /// lib.rs:157 `self.contains(VaultFlags::DEFAULT)` (bitflags `contains`: all bits of `other` set)
    #[verifier::external_body]
    pub fn is_default(&self) -> (r: bool) ensures r == has_flag(self.b, FLAG_DEFAULT), { unimplemented!() }
    /// lib.rs:167 `self.contains(VaultFlags::ARCHIVE)`
    #[verifier::external_body]
    pub fn is_archive(&self) -> (r: bool) ensures r == has_flag(self.b, FLAG_ARCHIVE), { unimplemented!() }
    /// lib.rs:172 `self.contains(VaultFlags::AUTHENTICATOR)`
    #[verifier::external_body]
    pub fn is_authenticator(&self) -> (r: bool) ensures r == has_flag(self.b, FLAG_AUTHENTICATOR), { unimplemented!() }
    /// lib.rs:177 `self.contains(VaultFlags::CONTACT)`
    #[verifier::external_body]
    pub fn is_contact(&self) -> (r: bool) ensures r == has_flag(self.b, FLAG_CONTACT), { unimplemented!() }
    /// lib.rs:162 `self.contains(VaultFlags::IDENTITY)`
    #[verifier::external_body]
    pub fn is_identity(&self) -> (r: bool) ensures r == has_flag(self.b, FLAG_IDENTITY), { unimplemented!() }
    /// lib.rs:182 `self.contains(VaultFlags::SYSTEM)`
    #[verifier::external_body]
    pub fn is_system(&self) -> (r: bool) ensures r == has_flag(self.b, FLAG_SYSTEM), { unimplemented!() }
    /// lib.rs:187 `self.contains(VaultFlags::DEVICE)`
    #[verifier::external_body]
    pub fn is_device(&self) -> (r: bool) ensures r == has_flag(self.b, FLAG_DEVICE), { unimplemented!() }
    /// lib.rs:193 `self.contains(VaultFlags::NO_SYNC)`
    #[verifier::external_body]
    pub fn is_sync_disabled(&self) -> (r: bool) ensures r == has_flag(self.b, FLAG_NO_SYNC), { unimplemented!() }
    /// lib.rs:198 `self.contains(VaultFlags::LOCAL)`
    #[verifier::external_body]
    pub fn is_local(&self) -> (r: bool) ensures r == has_flag(self.b, FLAG_LOCAL), { unimplemented!() }
    /// lib.rs:203 `self.contains(VaultFlags::SHARED)`
    #[verifier::external_body]
    pub fn is_shared(&self) -> (r: bool) ensures r == has_flag(self.b, FLAG_SHARED), { unimplemented!() }
    /// the flag constants of `bitflags! VaultFlags` (lib.rs:117-151) as values (`VaultFlags::ARCHIVE` ..)
    pub const DEFAULT: VaultFlags = VaultFlags { b: 1 };
    pub const IDENTITY: VaultFlags = VaultFlags { b: 2 };
    pub const ARCHIVE: VaultFlags = VaultFlags { b: 4 };
    pub const AUTHENTICATOR: VaultFlags = VaultFlags { b: 8 };
    pub const CONTACT: VaultFlags = VaultFlags { b: 16 };
    pub const SYSTEM: VaultFlags = VaultFlags { b: 32 };
    pub const DEVICE: VaultFlags = VaultFlags { b: 64 };
    pub const NO_SYNC: VaultFlags = VaultFlags { b: 128 };
    pub const LOCAL: VaultFlags = VaultFlags { b: 256 };
    pub const SHARED: VaultFlags = VaultFlags { b: 512 };
}

// ---- `Iterator::find` over the summaries ---------------------------------------------------
/// what `slice::Iter::find(p)` returns (core/src/iter/traits/iterator.rs `find`: "the first element
/// of the iterator that satisfies the predicate", `None` if there is none): `r` is the first
/// element on which `p` answered true, `p` answered false on every element before it
pub open spec fn first_match<F: Fn(&&Summary) -> bool>(s: Seq<Summary>, p: F, r: Option<Summary>) -> bool {
    match r {
        Some(x) => exists|i: int| #![trigger s[i]] 0 <= i < s.len() && s[i] == x && p.ensures((&&s[i],), true)
            && (forall|j: int| #![trigger s[j]] 0 <= j < i ==> p.ensures((&&s[j],), false)),
        None => forall|j: int| #![trigger s[j]] 0 <= j < s.len() ==> p.ensures((&&s[j],), false),
    }
}
/// R12 `$v.iter().find($p)` on a `&Vec<Summary>` (traits.rs:291, :278, :281).  The bound `FnMut` is
/// read as `Fn`: the closures passed capture by shared reference only.
#[verifier::external_body]
pub fn vfind<'a, F: Fn(&&Summary) -> bool>(v: &'a Vec<Summary>, predicate: F) -> (r: Option<&'a Summary>)
    requires forall|s: &&Summary| #[trigger] predicate.requires((s,)),
    ensures first_match(v@, predicate, match r { Some(x) => Some(*x), None => None }),
{ unimplemented!() }
/// `Option<&T>::copied` (core/src/option.rs): "Maps an Option<&T> to an Option<T> by copying the contents of the option"
pub assume_specification<'a, T: Copy> [Option::<&'a T>::copied] (o: Option<&'a T>) -> (r: Option<T>)
    ensures r == (match o { Some(x) => Some(*x), None => None });
/// `Option<&T>::cloned` (core/src/option.rs): "Maps an Option<&T> to an Option<T> by cloning the contents"
#[verifier::external_body]
pub fn opt_cloned(o: Option<&Summary>) -> (r: Option<Summary>)
    ensures r == (match o { Some(x) => Some(*x), None => None }),
{ unimplemented!() }

// ---- std::collections::HashMap<VaultId, Folder> ----------------------------------------------
/// std `HashMap` (library/std/src/collections/hash/map.rs); view: map from key VIEWS to values
/// (`Uuid`: `Eq`/`Hash` derived on the 16 bytes, i.e. on the view)
#[verifier::external_body]
#[verifier::reject_recursive_types(K)]
#[verifier::reject_recursive_types(V)]
pub struct HashMap<K, V> { _p: core::marker::PhantomData<(K, V)> }
impl<K: View, V> View for HashMap<K, V> {
    type V = Map<K::V, V>;
    uninterp spec fn view(&self) -> Map<K::V, V>;
}
impl<K: View, V> HashMap<K, V> {
    /// `HashMap::get`
    #[verifier::external_body]
    pub fn get(&self, k: &K) -> (r: Option<&V>)
        ensures r == (if self@.contains_key(k@) { Some(&self@[k@]) } else { None }),
    { unimplemented!() }
    /// `HashMap::contains_key` (keys compared by `Eq`, here: by view)
    #[verifier::external_body]
    pub fn contains_key(&self, k: &K) -> (r: bool) ensures r == self@.contains_key(k@), { unimplemented!() }
    /// `HashMap::insert`: the entry is set, the previous value (if any) handed back
    #[verifier::external_body]
    pub fn insert(&mut self, k: K, v: V) -> (r: Option<V>)
        ensures final(self)@ == old(self)@.insert(k@, v), r is Some <==> old(self)@.contains_key(k@), r is Some ==> r->Some_0 == old(self)@[k@],
    { unimplemented!() }
    /// `HashMap::remove`: the entry is gone, its value (if any) handed back
    #[verifier::external_body]
    pub fn remove(&mut self, k: &K) -> (r: Option<V>)
        ensures final(self)@ == old(self)@.remove(k@), r is Some <==> old(self)@.contains_key(k@), r is Some ==> r->Some_0 == old(self)@[k@],
    { unimplemented!() }
    /// `HashMap::get_mut`: a mutable reference to the stored value; whatever is written through
    /// it is the entry's new value, no other entry changes
    #[verifier::external_body]
    pub fn get_mut(&mut self, k: &K) -> (r: Option<&mut V>)
        ensures
            r is Some <==> old(self)@.contains_key(k@),
            r matches Some(v) ==> *v == old(self)@[k@] && final(self)@ == old(self)@.insert(k@, *final(v)),
            r is None ==> final(self)@ == old(self)@,
    { unimplemented!() }
}

// ---- sos_backend::Folder ----------------------------------------------------------------------
/// name, flags and description of a folder (unit fold `FolderView` without the secrets; the description is the folder's
/// meta blob opened with the folder key: clientsync `open_meta`, vaultmem `dec_VaultMeta`)
pub ghost struct FolderHead { pub name: Seq<char>, pub flags: u64, pub desc: Seq<char> }
/// `sos_core::commit::CommitState` (commit hash + proof) — opaque
#[verifier::external_body]
pub struct CommitState { _p: () }
/// `sos_core::events::WriteEvent` (crates/core/src/events/write.rs): the folder-level variants as declared, the secret
/// events collapsed (unit clientsync: the event is exactly the change made)
pub enum WriteEvent { CreateVault(Vec<u8>), SetVaultName(String), SetVaultFlags(VaultFlags), SetVaultMeta(AeadPack), Secret(WriteSecretEvent) }
/// `sos_core::crypto::AeadPack` — opaque (ciphertext)
#[verifier::external_body]
pub struct AeadPack { _p: () }
/// CreateSecret / UpdateSecret / DeleteSecret with their payload — opaque here
#[verifier::external_body]
pub struct WriteSecretEvent { _p: () }
/// `sos_core::VaultCommit` — opaque (ciphertext row)
#[verifier::external_body]
pub struct VaultCommit { _p: () }

/// `sos_backend::Folder` (crates/backend/src/folder.rs): access point + event log.
/// Ghost view: `secrets()` = the live rows opened with the folder key (clientsync `fsecrets`),
/// `head()` = name, flags, description.  The contracts below are the labels proved for the real
/// functions in unit clientsync (Folder::*, which rest on unit vaultmem AccessPoint::*):
/// on `Err` either the access-point step failed (vault as before) or the event-log append
/// failed after the vault was changed (folder.rs:235-237: vault first, then `events.apply`).
#[verifier::external_body]
pub struct Folder { _p: () }
impl Folder {
    pub uninterp spec fn secrets(&self) -> Map<Seq<u8>, SecV>;
    pub uninterp spec fn head(&self) -> FolderHead;

    /// what `create_secret(row)` leaves in the folder when the vault step ran: a fresh id is inserted,
    /// an id already present keeps its OLD value (`entry(id).or_insert(..)`, vaultmem known finding [ins_view])
    pub open spec fn after_create(m: Map<Seq<u8>, SecV>, id: Seq<u8>, v: SecV) -> Map<Seq<u8>, SecV> {
        if m.contains_key(id) { m } else { m.insert(id, v) }
    }
    /// folder.rs:230; clientsync [one_matching_event] + [create_then_read] (vaultmem [create_then_read])
    #[verifier::external_body]
    pub fn create_secret(&mut self, secret_data: &SecretRow) -> (r: BkResult<WriteEvent>)
        ensures
            final(self).head() == old(self).head(),
            r is Ok ==> final(self).secrets() == Self::after_create(old(self).secrets(), secret_data.id@, (secret_data.meta@, secret_data.secret@)),
            r is Err ==> final(self).secrets() == old(self).secrets()
                || final(self).secrets() == Self::after_create(old(self).secrets(), secret_data.id@, (secret_data.meta@, secret_data.secret@)),
    { unimplemented!() }
    /// folder.rs:242; clientsync [read_is_last_written] (vaultmem [read_is_decrypt_of_stored]).  Last clause: a DECODED
    /// secret never names a source file — crates/vault/src/encoding/secret.rs:368 decodes `FileContent::External` with
    /// `path: None` (the path is not part of the encoding); attachment fields are rows decoded the same way
    #[verifier::external_body]
    pub fn read_secret(&self, id: &SecretId) -> (r: BkResult<Option<(SecretMeta, Secret, ReadEvent)>>)
        ensures
            r is Ok ==> (r->Ok_0 is Some <==> self.secrets().contains_key(id@))
                && (r->Ok_0 matches Some(t) ==> self.secrets()[id@] == (t.0@, t.1@) && t.2 == ReadEvent::ReadSecret(*id) && !has_file_sources(t.1@)),
    { unimplemented!() }
    /// folder.rs:251; clientsync [raw_is_lookup]
    #[verifier::external_body]
    pub fn raw_secret(&self, id: &SecretId) -> (r: BkResult<Option<(VaultCommit, ReadEvent)>>)
        ensures r is Ok ==> (r->Ok_0 is Some <==> self.secrets().contains_key(id@)),
    { unimplemented!() }
    /// folder.rs:260; clientsync [one_matching_event] + [update_then_read] (vaultmem [upd_view]: an
    /// absent id is a no-op answering `None`)
    #[verifier::external_body]
    pub fn update_secret(&mut self, id: &SecretId, secret_meta: SecretMeta, secret: Secret) -> (r: BkResult<Option<WriteEvent>>)
        ensures
            final(self).head() == old(self).head(),
            r is Ok ==> (r->Ok_0 is Some <==> old(self).secrets().contains_key(id@))
                && final(self).secrets() == (if old(self).secrets().contains_key(id@) { old(self).secrets().insert(id@, (secret_meta@, secret@)) } else { old(self).secrets() }),
            r is Err ==> final(self).secrets() == old(self).secrets()
                || (old(self).secrets().contains_key(id@) && final(self).secrets() == old(self).secrets().insert(id@, (secret_meta@, secret@))),
    { unimplemented!() }
    /// folder.rs:279; clientsync [one_matching_event] + [delete_then_absent] (vaultmem [del_view])
    #[verifier::external_body]
    pub fn delete_secret(&mut self, id: &SecretId) -> (r: BkResult<Option<WriteEvent>>)
        ensures
            final(self).head() == old(self).head(),
            r is Ok ==> (r->Ok_0 is Some <==> old(self).secrets().contains_key(id@))
                && final(self).secrets() == (if old(self).secrets().contains_key(id@) { old(self).secrets().remove(id@) } else { old(self).secrets() }),
            r is Err ==> final(self).secrets() == old(self).secrets()
                || (old(self).secrets().contains_key(id@) && final(self).secrets() == old(self).secrets().remove(id@)),
    { unimplemented!() }
    /// folder.rs `commit_state`: head of the event log; reads only
    #[verifier::external_body]
    pub fn commit_state(&self) -> (r: BkResult<CommitState>) { unimplemented!() }
}

// ---- search index (feature "search") — unit clientsync proves C20 for these calls; here opaque ----
/// `sos_search::AccountSearch` (crates/search/src/search.rs): `Arc<RwLock<SearchIndex>>`; it holds no folder
#[verifier::external_body]
pub struct AccountSearch { _p: () }
/// the `Arc<RwLock<SearchIndex>>` handed out by `AccountSearch::search`
#[verifier::external_body]
pub struct SearchLock { _p: () }
/// `sos_search::SearchIndex`
#[verifier::external_body]
pub struct SearchIndex { _p: () }
/// the prepared document `SearchIndex::prepare` returns
#[verifier::external_body]
pub struct IndexDoc { _p: () }
impl AccountSearch {
    /// search.rs `search`: `Arc::clone(&self.search_index)`
    #[verifier::external_body]
    pub fn search(&self) -> (r: SearchLock) { unimplemented!() }
}
impl SearchLock {
    /// tokio `RwLock::read` (R9)
    #[verifier::external_body]
    pub fn read(&self) -> (r: &SearchIndex) { unimplemented!() }
    /// tokio `RwLock::write` (R9): the index is behind an `Arc`, the storage's folders are not reachable from it
    #[verifier::external_body]
    pub fn write(&self) -> (r: SearchWriteGuard) { unimplemented!() }
}
/// `RwLockWriteGuard<SearchIndex>`
#[verifier::external_body]
pub struct SearchWriteGuard { _p: () }
impl SearchIndex {
    /// search.rs `prepare`: builds the document; reads only
    #[verifier::external_body]
    pub fn prepare(&self, folder_id: &VaultId, id: &SecretId, meta: &SecretMeta, secret: &Secret) -> (r: IndexDoc) { unimplemented!() }
}
impl SearchWriteGuard {
    /// search.rs `prepare` through the write guard (secret_storage.rs:261)
    #[verifier::external_body]
    pub fn prepare(&self, folder_id: &VaultId, id: &SecretId, meta: &SecretMeta, secret: &Secret) -> (r: IndexDoc) { unimplemented!() }
    /// search.rs `commit`
    #[verifier::external_body]
    pub fn commit(&mut self, doc: IndexDoc) { unimplemented!() }
    /// search.rs `remove`
    #[verifier::external_body]
    pub fn remove(&mut self, folder_id: &VaultId, id: &SecretId) { unimplemented!() }
}

// ---- external files (feature "files") — unit `filemgr` puts file_manager.rs under contract ----------
/// `sos_external_files::FileMutationEvent` — opaque
#[verifier::external_body]
pub struct FileMutationEvent { _p: () }
/// `tokio::sync::mpsc::Sender<FileProgress>` — opaque
#[verifier::external_body]
pub struct FileProgressSender { _p: () }
impl Clone for FileProgressSender {
    /// tokio mpsc `Sender::clone`: another handle on the same channel
    #[verifier::external_body]
    fn clone(&self) -> (r: FileProgressSender) { unimplemented!() }
}
/// the secret names a NEW file to encrypt (`FileContent::External { path: Some(..), .. }`, itself or in an attachment field):
/// what file_manager.rs `get_file_sources` collects
pub uninterp spec fn has_file_sources(s: SecretV) -> bool;
/// the secret `write_update_checksum` hands back for rewriting (file_manager.rs:518-539): the
/// same secret with checksum / size of the encrypted external files filled in (`copy_file_secret`)
pub uninterp spec fn checksum_update(before: SecretV, after: SecretV) -> bool;
/// WHETHER `create_files` hands back a row to re-write (file_manager.rs:518-550 `changed`): the secret is an external file
/// secret, or a file was encrypted for one of its attachment fields (`get_file_sources(secret)`) — a function of the secret
pub uninterp spec fn needs_rewrite_new(s: SecretV) -> bool;
/// WHETHER `update_files` hands back a row to re-write (file_manager.rs:213: `get_file_sources(new_secret)` not empty, then
/// `changed` of write_update_checksum) — a function of the new secret
pub uninterp spec fn needs_rewrite_upd(s: SecretV) -> bool;
/// WHICH secret is handed back: the input secret with the checksum / size of the files that were encrypted, which the
/// returned `FileMutationEvent::Create { result, .. }` events carry (unit filemgr [rewrite_keeps_everything_but_file_content],
/// [attachment_checksum_lands_on_its_field], [file_checksum_is_its_result]) — a function of the secret and the returned events
pub uninterp spec fn rewritten(s: SecretV, evs: Seq<FileMutationEvent>) -> SecretV;
/// crates/storage/client/src/files/file_manager.rs `ExternalFileManager`: encrypted file blobs
/// and the file event log; it holds neither folders nor the search index.
#[verifier::external_body]
pub struct ExternalFileManager { _p: () }
impl ExternalFileManager {
    /// the file mutation events appended to the file event log so far
    pub uninterp spec fn logged(&self) -> Seq<FileMutationEvent>;
    /// file_manager.rs:149 -> `write_update_checksum` (:410): `id = *secret_data.id()` (:421),
    /// `new_meta = secret_data.meta().clone()` (:514), `Some((id, SecretRow::new(id, new_meta,
    /// new_secret)))` (:542): the row to write back has the same id and the same meta data.  Without file sources
    /// (`files` empty: no `results`, no `attachments`, `new_user_data` None) the secret handed back is
    /// `copy_file_secret(secret, None, None, None)` (:685: every field cloned) or the secret itself
    #[verifier::external_body]
    pub fn create_files(&mut self, summary: &Summary, secret_data: SecretRow, file_progress: &mut Option<FileProgressSender>)
        -> (r: ClResult<(Vec<FileMutationEvent>, Option<(SecretId, SecretRow)>)>)
        ensures final(self).logged() == old(self).logged(),
            r matches Ok((evs, w)) ==> (w is Some <==> needs_rewrite_new(secret_data.secret@)),
            r matches Ok((evs, Some((wid, wrow)))) ==> wid@ == secret_data.id@ && wrow.id@ == secret_data.id@ && wrow.meta@ == secret_data.meta@
            && wrow.secret@ == rewritten(secret_data.secret@, evs@)
            && checksum_update(secret_data.secret@, wrow.secret@)
            && (!has_file_sources(secret_data.secret@) ==> wrow.secret@ == secret_data.secret@),
    { unimplemented!() }
    /// file_manager.rs:160 `update_files`: the write-back row comes from `write_update_checksum(new_summary, new_secret, ..)`
    #[verifier::external_body]
    pub fn update_files(&mut self, old_summary: &Summary, new_summary: &Summary, old_secret: &SecretRow, new_secret: SecretRow, file_progress: &mut Option<FileProgressSender>)
        -> (r: ClResult<(Vec<FileMutationEvent>, Option<(SecretId, SecretRow)>)>)
        ensures final(self).logged() == old(self).logged(),
            r matches Ok((evs, w)) ==> (w is Some <==> needs_rewrite_upd(new_secret.secret@)),
            r matches Ok((evs, Some((wid, wrow)))) ==> wid@ == new_secret.id@ && wrow.id@ == new_secret.id@ && wrow.meta@ == new_secret.meta@
            && wrow.secret@ == rewritten(new_secret.secret@, evs@)
            && checksum_update(new_secret.secret@, wrow.secret@),
    { unimplemented!() }
    /// file_manager.rs:232 `delete_files`
    #[verifier::external_body]
    pub fn delete_files(&self, summary: &Summary, secret_data: &SecretRow, targets: Option<Vec<&Secret>>, file_progress: &mut Option<FileProgressSender>)
        -> (r: ClResult<Vec<FileMutationEvent>>)
    { unimplemented!() }
    /// file_manager.rs:310 `move_files`
    #[verifier::external_body]
    pub fn move_files(&self, secret_data: &SecretRow, old_vault_id: &VaultId, new_vault_id: &VaultId, old_secret_id: &SecretId, new_secret_id: &SecretId,
        targets: Option<Vec<&Secret>>, file_progress: &mut Option<FileProgressSender>) -> (r: ClResult<Vec<FileMutationEvent>>)
    { unimplemented!() }
    /// file_manager.rs:44 `append_file_mutation_events`: unit filemgr [appends_exactly_the_events], [failed_append_changes_nothing]
    #[verifier::external_body]
    pub fn append_file_mutation_events(&mut self, events: &[FileMutationEvent]) -> (r: ClResult<()>)
        ensures
            r is Ok ==> final(self).logged() == old(self).logged() + events@,
            r is Err ==> final(self).logged() == old(self).logged(),
    { unimplemented!() }
}

// ---- the storage traits (crates/storage/client/src/traits.rs): required methods ------------------
/// traits.rs:51 `pub(crate) mod private { #[derive(Copy, Clone)] pub struct Internal; }` — sealing token
#[derive(Clone, Copy)]
pub struct Internal;
/// `sos_login::Identity` (the authenticated user) — opaque
#[verifier::external_body]
pub struct Identity { _p: () }

/// ghost state of a client storage: the in-memory folders (`folders()`), the folder summaries
/// (`summaries(Internal)`), the currently open folder (`current_folder()`), whether a user is signed in
pub ghost struct StoreV {
    /// the vault files of folders that are NOT held in memory, by folder id (a folder in memory: `Folder::stored()`)
    pub vfiles: Map<Seq<u8>, VaultG>,
    /// the account event log
    pub alog: Seq<AEv>,
    /// the folder passwords the signed-in user has saved
    pub user_keys: Map<Seq<u8>, AccessKey>,
    pub folders: Map<Seq<u8>, Folder>,
    pub sums: Seq<Summary>,
    pub cur: Option<Summary>,
    pub authed: bool,
    /// the file mutation events appended to the file event log so far (the file manager's `logged()`)
    pub flog: Seq<FileMutationEvent>,
}
