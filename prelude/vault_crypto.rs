// ===========================================================================
// prelude/vault_crypto.rs — cryptographic stand-ins of the unit `vaultmem`
// (included at top level inside `mod cpre { use super::*; .. }`, after the
// extracted core types).  THE cryptographic assumptions of DESIGN 2.3:
//   Axiom AEAD, Axiom AEAD-KB, Axiom RNG, Axiom KDF (+ Axiom CR for SHA-256).
// The axioms are NOT broadcast: a lemma that uses one calls it by name.
// Everything `external_body` / `axiom` / `assume_specification` here is an
// ASSUMPTION.  Sources read: aes-gcm-0.10.3, chacha20poly1305-0.10.1,
// aead-0.5.2 (src/lib.rs `Aead`), crypto-common-0.1.7 (`KeyInit`),
// generic-array-0.14.7 (`from_slice`), rand-0.8.5 (`Rng::gen`), age-0.11.1,
// argon2-0.5.3, balloon-hash-0.4.0, password-hash-0.5.0, secrecy-0.10.3,
// sha2-0.10.9, crates/core/src/crypto/{private_key,key_derivation}.rs,
// crates/core/src/lib.rs (`csprng`).
// ===========================================================================

// ---- AEAD -----------------------------------------------------------------------
pub ghost enum Alg { Aes256Gcm, XChaCha20Poly1305 }
/// the AEAD encryption *function* (ciphertext ++ tag) of `alg`
pub uninterp spec fn E(alg: Alg, key: Seq<u8>, nonce: Seq<u8>, pt: Seq<u8>) -> Seq<u8>;
/// the AEAD decryption function: the plaintext, or None (authentication failure)
pub uninterp spec fn D(alg: Alg, key: Seq<u8>, nonce: Seq<u8>, ct: Seq<u8>) -> Option<Seq<u8>>;

/// **Axiom AEAD** (correctness + perfect authenticity): decryption returns a
/// plaintext exactly for the ciphertexts that encryption produces for it under
/// the same key and nonce.
pub axiom fn axiom_aead(alg: Alg, key: Seq<u8>, nonce: Seq<u8>, ct: Seq<u8>, pt: Seq<u8>)
    ensures D(alg, key, nonce, ct) == Some(pt) <==> ct == E(alg, key, nonce, pt);

/// **Axiom AEAD-KB** (key / nonce binding, idealised): a ciphertext determines
/// the key, nonce and plaintext it was made from.  Needed for "with any other
/// key decryption fails"; it is an idealisation (AES-GCM is not key-committing).
pub axiom fn axiom_aead_binding(alg: Alg, k1: Seq<u8>, n1: Seq<u8>, p1: Seq<u8>, k2: Seq<u8>, n2: Seq<u8>, p2: Seq<u8>)
    ensures E(alg, k1, n1, p1) == E(alg, k2, n2, p2) ==> k1 == k2 && n1 == n2 && p1 == p2;

/// `aes_gcm::Nonce<U12>` = GenericArray<u8, U12>
#[verifier::external_body]
pub struct AesNonce { _p: () }
impl View for AesNonce { type V = Seq<u8>; uninterp spec fn view(&self) -> Seq<u8>; }
impl AesNonce {
    /// generic-array-0.14.7 src/lib.rs:549 `from_slice`: "Panics if the slice
    /// is not equal to the length of the array" (12)
    #[verifier::external_body]
    pub fn from_slice(s: &[u8]) -> (r: &AesNonce)
        requires s@.len() == 12,
        ensures r@ == s@,
    { unimplemented!() }
}
/// `chacha20poly1305::XNonce` = GenericArray<u8, U24>
#[verifier::external_body]
pub struct XNonce { _p: () }
impl View for XNonce { type V = Seq<u8>; uninterp spec fn view(&self) -> Seq<u8>; }
impl XNonce {
    /// as above, length 24
    #[verifier::external_body]
    pub fn from_slice(s: &[u8]) -> (r: &XNonce)
        requires s@.len() == 24,
        ensures r@ == s@,
    { unimplemented!() }
}
/// `chacha20poly1305::Key` = GenericArray<u8, U32>
#[verifier::external_body]
pub struct Key { _p: () }
impl View for Key { type V = Seq<u8>; uninterp spec fn view(&self) -> Seq<u8>; }
impl Key {
    /// as above, length 32
    #[verifier::external_body]
    pub fn from_slice(s: &[u8]) -> (r: &Key)
        requires s@.len() == 32,
        ensures r@ == s@,
    { unimplemented!() }
}

/// `aes_gcm::Aes256Gcm` keyed instance
#[verifier::external_body]
pub struct Aes256Gcm { _p: () }
impl Aes256Gcm {
    pub uninterp spec fn key(&self) -> Seq<u8>;
    /// crypto-common-0.1.7 src/lib.rs:129 `KeyInit::new_from_slice`:
    /// Err(InvalidLength) unless `key.len() == KeySize` (32)
    #[verifier::external_body]
    pub fn new_from_slice(key: &[u8]) -> (r: core::result::Result<Aes256Gcm, InvalidLength>)
        ensures
            r is Ok <==> key@.len() == 32,
            r is Ok ==> r->Ok_0.key() == key@,
    { unimplemented!() }
    /// aead-0.5.2 `Aead::encrypt(&self, nonce, plaintext)`: ciphertext ++ tag,
    /// Err only for an over-long message
    #[verifier::external_body]
    pub fn encrypt(&self, nonce: &AesNonce, plaintext: &[u8]) -> (r: core::result::Result<Vec<u8>, AeadError>)
        ensures r is Ok ==> r->Ok_0@ == E(Alg::Aes256Gcm, self.key(), nonce@, plaintext@),
    { unimplemented!() }
    /// aead-0.5.2 `Aead::decrypt(&self, nonce, ciphertext)`: Err on tag mismatch
    #[verifier::external_body]
    pub fn decrypt(&self, nonce: &AesNonce, ciphertext: &[u8]) -> (r: core::result::Result<Vec<u8>, AeadError>)
        ensures
            r is Ok <==> D(Alg::Aes256Gcm, self.key(), nonce@, ciphertext@) is Some,
            r is Ok ==> Some(r->Ok_0@) == D(Alg::Aes256Gcm, self.key(), nonce@, ciphertext@),
    { unimplemented!() }
}
/// `chacha20poly1305::XChaCha20Poly1305` keyed instance
#[verifier::external_body]
pub struct XChaCha20Poly1305 { _p: () }
impl XChaCha20Poly1305 {
    pub uninterp spec fn key(&self) -> Seq<u8>;
    /// `KeyInit::new(&Key)`: infallible
    #[verifier::external_body]
    pub fn new(key: &Key) -> (r: XChaCha20Poly1305)
        ensures r.key() == key@,
    { unimplemented!() }
    #[verifier::external_body]
    pub fn encrypt(&self, nonce: &XNonce, plaintext: &[u8]) -> (r: core::result::Result<Vec<u8>, AeadError>)
        ensures r is Ok ==> r->Ok_0@ == E(Alg::XChaCha20Poly1305, self.key(), nonce@, plaintext@),
    { unimplemented!() }
    #[verifier::external_body]
    pub fn decrypt(&self, nonce: &XNonce, ciphertext: &[u8]) -> (r: core::result::Result<Vec<u8>, AeadError>)
        ensures
            r is Ok <==> D(Alg::XChaCha20Poly1305, self.key(), nonce@, ciphertext@) is Some,
            r is Ok ==> Some(r->Ok_0@) == D(Alg::XChaCha20Poly1305, self.key(), nonce@, ciphertext@),
    { unimplemented!() }
}

/// `<Vec<u8> as AsRef<[u8]>>::as_ref` (alloc/src/vec/mod.rs): the elements as a slice
pub assume_specification<T, A: core::alloc::Allocator> [<Vec<T, A> as AsRef<[T]>>::as_ref] (v: &Vec<T, A>) -> (r: &[T])
    ensures r@ == v@;

// ---- RNG ------------------------------------------------------------------------
/// R19: the process-wide CSPRNG as a ghost draw counter.  The counter is a
/// `tracked` (erased) argument threaded through every function that draws;
/// the compiled code is unchanged.
pub tracked struct Rng { pub ghost count: nat }
/// the bytes of the `i`-th draw (of `len` bytes) of the process' CSPRNG
pub uninterp spec fn draw(i: nat, len: nat) -> Seq<u8>;
/// **Axiom RNG**: each draw differs from every earlier (and later) draw.
/// Idealisation: for a fixed length there are finitely many values, so the
/// axiom is contradicted only by a pigeonhole argument over > 2^96 draws,
/// which no proof here makes; it is not broadcast.
pub axiom fn axiom_rng(i: nat, j: nat, li: nat, lj: nat)
    ensures draw(i, li) == draw(j, lj) ==> i == j;

/// a draw of `len` bytes has `len` bytes
pub axiom fn lemma_draw_len(i: nat, len: nat)
    ensures draw(i, len).len() == len;

/// value types `rand::Rng::gen` is used at (`[u8; N]`: rand-0.8.5
/// src/distributions/other.rs `Standard` for arrays = N successive bytes)
pub trait RandFill: Sized {
    spec fn rbytes(&self) -> Seq<u8>;
    spec fn rlen() -> nat;
}
impl<const N: usize> RandFill for [u8; N] {
    open spec fn rbytes(&self) -> Seq<u8> { self@ }
    open spec fn rlen() -> nat { N as nat }
}
/// `sos_core::csprng()` (crates/core/src/lib.rs:43): `OsRng`
pub struct Csprng { pub _p: () }
pub fn csprng() -> Csprng { Csprng { _p: () } }
impl Csprng {
    /// R19 `csprng().gen()` with the ghost counter: the next draw
    #[verifier::external_body]
    pub fn gen<T: RandFill>(&mut self, Tracked(rng): Tracked<&mut Rng>) -> (r: T)
        ensures
            r.rbytes() == draw(old(rng).count, T::rlen()),
            final(rng).count == old(rng).count + 1,
    { unimplemented!() }
}

// ---- keys -----------------------------------------------------------------------
/// `secrecy::SecretString` (secrecy-0.10.3): a string that is zeroized on drop
#[verifier::external_body]
pub struct SecretString { _p: () }
impl View for SecretString { type V = Seq<char>; uninterp spec fn view(&self) -> Seq<char>; }
impl Clone for SecretString {
    #[verifier::external_body]
    fn clone(&self) -> (r: Self) ensures r@ == self@, { unimplemented!() }
}
impl SecretString {
    /// `ExposeSecret::expose_secret`: the string
    #[verifier::external_body]
    pub fn expose_secret(&self) -> (r: &str)
        ensures r@ == self@,
    { unimplemented!() }
}

/// `age::x25519::Identity` / `Recipient` (age-0.11.1 src/x25519.rs)
#[verifier::external_body]
pub struct Identity { _p: () }
#[verifier::external_body]
pub struct IdentityV { _p: () }
impl View for Identity { type V = IdentityV; uninterp spec fn view(&self) -> IdentityV; }
impl Clone for Identity {
    #[verifier::external_body]
    fn clone(&self) -> (r: Self) ensures r@ == self@, { unimplemented!() }
}
#[verifier::external_body]
pub struct Recipient { _p: () }

/// `sos_core::crypto::DerivedPrivateKey` (private_key.rs:105): a
/// `SecretBox<Vec<u8>>`; view = the key bytes
#[verifier::external_body]
pub struct DerivedPrivateKey { _p: () }
impl View for DerivedPrivateKey { type V = Seq<u8>; uninterp spec fn view(&self) -> Seq<u8>; }
impl AsRef<[u8]> for DerivedPrivateKey {
    /// private_key.rs:141 `self.inner.expose_secret()`
    #[verifier::external_body]
    fn as_ref(&self) -> (r: &[u8])
        ensures r@ == self@,
    { unimplemented!() }
}
impl DerivedPrivateKey {
    /// private_key.rs:136 `Self { inner }` + secrecy `SecretBox::new(Box<Vec<u8>>)`
    /// composed with `Vec<u8>::into() -> Box<Vec<u8>>` as at the one call site
    /// (key_derivation.rs:151): R12 `DerivedPrivateKey::new(secrecy::SecretBox::new($v.into()))`
    #[verifier::external_body]
    pub fn new_boxed(v: Vec<u8>) -> (r: DerivedPrivateKey)
        ensures r@ == v@,
    { unimplemented!() }
}

// ---- asymmetric (age) -----------------------------------------------------------
/// what age produced: `ct` is an age encryption of `pt` to `rs`
pub uninterp spec fn age_ct(rs: Seq<Recipient>, pt: Seq<u8>, ct: Seq<u8>) -> bool;
/// age decryption function for an identity
pub uninterp spec fn age_dec(id: IdentityV, ct: Seq<u8>) -> Option<Seq<u8>>;

pub mod x25519 {
    use super::*;
    /// crates/core/src/crypto/cipher/x25519.rs:8 `encrypt`: age encryptor over the
    /// recipients, then `AeadPack { ciphertext, nonce: Nonce::new_random_12() }`
    /// (one CSPRNG draw for the unused nonce; age's own randomness is not modelled)
    #[verifier::external_body]
    pub fn encrypt(plaintext: &[u8], recipients: Vec<Recipient>, Tracked(rng): Tracked<&mut Rng>) -> (r: CResult<AeadPack>)
        ensures
            r is Ok ==> age_ct(recipients@, plaintext@, r->Ok_0@.ct) && r->Ok_0@.nonce == NonceV::N12(draw(old(rng).count, 12)),
            r is Ok ==> final(rng).count == old(rng).count + 1,
            final(rng).count >= old(rng).count,
    { unimplemented!() }
    /// x25519.rs:35 `decrypt`: age decryptor with the identity
    #[verifier::external_body]
    pub fn decrypt(identity: &Identity, aead: &AeadPack) -> (r: CResult<Vec<u8>>)
        ensures
            r is Ok <==> age_dec(identity@, aead@.ct) is Some,
            r is Ok ==> Some(r->Ok_0@) == age_dec(identity@, aead@.ct),
    { unimplemented!() }
}
