// ===========================================================================
// prelude/files_age.rs — stand-ins for age-0.11.1 passphrase encryption as
// used by crates/storage/client/src/files/external_files.rs, plus the small
// I/O adapters around it.  Included inside `mod pre` after files_fs.rs.
//
// Sources read: age-0.11.1 src/protocol.rs (Encryptor::with_user_passphrase,
// wrap_async_output, Decryptor::new_async_buffered, decrypt_async),
// src/primitives/stream.rs (StreamWriter: AsyncWrite::poll_write/poll_flush and
// the SYNC `finish`; StreamReader), futures-util-0.3 src/io/copy_buf.rs
// (`copy` ends with `poll_flush` of the writer — this is what makes the sync
// `finish()` after async writes complete: no encrypted chunk is left pending).
// age itself is NOT verified: its output is an uninterpreted function of
// (passphrase, plaintext, randomness drawn when the Encryptor is built).
// Every `external_body`, `uninterp spec fn` and `axiom` below is an ASSUMPTION.
// ===========================================================================

/// secrecy::SecretString — viewed as its text
#[verifier::external_body]
pub struct SecretString { _p: () }
impl View for SecretString {
    type V = Seq<char>;
    uninterp spec fn view(&self) -> Seq<char>;
}
impl Clone for SecretString {
    #[verifier::external_body]
    fn clone(&self) -> (r: Self)
        ensures r@ == self@,
    { unimplemented!() }
}

/// the complete age file for (passphrase, plaintext, randomness)
pub uninterp spec fn age_enc(pass: Seq<char>, pt: Seq<u8>, rnd: int) -> Seq<u8>;
/// decryption of a complete age file with a passphrase identity
pub uninterp spec fn age_dec(pass: Seq<char>, ct: Seq<u8>) -> Option<Seq<u8>>;

/// **Axiom AGE** (correctness half of the AEAD axiom of DESIGN 2.3): what
/// was encrypted with a passphrase decrypts with it to the same plaintext.
pub broadcast axiom fn axiom_age_roundtrip(pass: Seq<char>, pt: Seq<u8>, rnd: int)
    ensures #[trigger] age_dec(pass, age_enc(pass, pt, rnd)) == Some(pt);

#[derive(Debug)]
pub struct DecryptError { pub _p: () }

#[verifier::external_body]
pub struct Encryptor { _p: () }
impl Encryptor {
    pub uninterp spec fn pass(&self) -> Seq<char>;
    /// file key, scrypt salt and payload nonce drawn by `with_user_passphrase`
    pub uninterp spec fn rnd(&self) -> int;

    #[verifier::external_body]
    pub fn with_user_passphrase(passphrase: SecretString) -> (r: Encryptor)
        ensures r.pass() == passphrase@,
    { unimplemented!() }

    /// writes header and nonce to `output`, returns the payload writer.  The
    /// writer keeps the `&mut` borrow of the output; `target_final` is the
    /// value the output has when that borrow ends.
    #[verifier::external_body]
    pub fn wrap_async_output<'a>(self, output: &'a mut Vec<u8>) -> (r: Result<StreamWriter<'a>>)
        ensures r.is_ok() ==> r.unwrap().pass() == self.pass() && r.unwrap().rnd() == self.rnd()
            && r.unwrap().pt() == Seq::<u8>::empty()
            && r.unwrap().prefix() == old(output)@
            && r.unwrap().target_final() == final(output)@,
    { unimplemented!() }
}

/// age::stream::StreamWriter<&mut Vec<u8>>
#[verifier::external_body]
pub struct StreamWriter<'a> { _o: &'a mut Vec<u8> }
impl<'a> StreamWriter<'a> {
    pub uninterp spec fn pass(&self) -> Seq<char>;
    pub uninterp spec fn rnd(&self) -> int;
    /// plaintext written so far
    pub uninterp spec fn pt(&self) -> Seq<u8>;
    /// what the output vector held before the age file
    pub uninterp spec fn prefix(&self) -> Seq<u8>;
    /// the output vector once the writer is gone (prophecy)
    pub uninterp spec fn target_final(&self) -> Seq<u8>;

    /// encrypts the last chunk and writes it: the output is then the
    /// complete age file of everything written
    #[verifier::external_body]
    pub fn finish(self) -> (r: Result<()>)
        ensures r.is_ok() ==> self.target_final() == self.prefix() + age_enc(self.pass(), self.pt(), self.rnd()),
    { unimplemented!() }
}

/// tokio_util::compat `file.compat()` — adapter, same file
#[verifier::external_body]
pub struct Compat { _p: () }
impl View for Compat {
    type V = FileV;
    uninterp spec fn view(&self) -> FileV;
}
impl File {
    #[verifier::external_body]
    pub fn compat(self) -> (r: Compat)
        ensures r@ == self@,
    { unimplemented!() }
}

pub mod futures {
    pub mod io {
        use vstd::prelude::*;
        use super::super::{Compat, StreamWriter, Result};
        /// futures::io::copy(reader, writer): everything from the reader's
        /// cursor to its end is written to the writer, which is then flushed.
        #[verifier::external_body]
        pub fn copy<'a>(reader: &mut Compat, writer: &mut StreamWriter<'a>) -> (r: Result<u64>)
            ensures
                final(writer).pass() == old(writer).pass(), final(writer).rnd() == old(writer).rnd(),
                final(writer).prefix() == old(writer).prefix(),
                final(writer).target_final() == old(writer).target_final(),
                r.is_ok() ==> final(writer).pt() == old(writer).pt()
                    + old(reader)@.snap.subrange(old(reader)@.pos as int, old(reader)@.snap.len() as int),
        { unimplemented!() }
    }
}

/// futures::io::BufReader over the compat file — adapter, same file
#[verifier::external_body]
pub struct BufReader { _p: () }
impl View for BufReader {
    type V = FileV;
    uninterp spec fn view(&self) -> FileV;
}
impl BufReader {
    #[verifier::external_body]
    pub fn new(inner: Compat) -> (r: BufReader)
        ensures r@ == inner@,
    { unimplemented!() }
}

pub mod age {
    use vstd::prelude::*;
    use super::{BufReader, DecryptError, SecretString, Result, age_dec};

    /// age::Decryptor over the buffered file
    #[verifier::external_body]
    pub struct Decryptor { _p: () }
    impl Decryptor {
        /// the complete input (header and payload)
        pub uninterp spec fn ct(&self) -> Seq<u8>;

        /// Err if the input does not start with a valid age header
        #[verifier::external_body]
        pub fn new_async_buffered(input: &mut BufReader) -> (r: core::result::Result<Decryptor, DecryptError>)
            requires old(input)@.pos == 0,
            ensures r.is_ok() ==> r.unwrap().ct() == old(input)@.snap,
        { unimplemented!() }

        /// R12: `decrypt_async(std::iter::once(&age::scrypt::Identity::new(p) as _))`
        /// — decryption with the single passphrase identity `p` (the `as _`
        /// is an unsizing cast to `&dyn Identity`, which Verus rejects).
        #[verifier::external_body]
        pub fn decrypt_async_passphrase(self, passphrase: SecretString) -> (r: core::result::Result<StreamReader, DecryptError>)
            ensures r.is_ok() ==> r.unwrap().ct() == self.ct() && r.unwrap().pass() == passphrase@,
        { unimplemented!() }
    }

    /// age::stream::StreamReader: authenticates chunk by chunk while reading
    #[verifier::external_body]
    pub struct StreamReader { _p: () }
    impl StreamReader {
        pub uninterp spec fn ct(&self) -> Seq<u8>;
        pub uninterp spec fn pass(&self) -> Seq<char>;

        /// futures AsyncReadExt::read_to_end on a fresh reader: Ok only if
        /// the whole file authenticates; the plaintext is appended to `buf`.
        #[verifier::external_body]
        pub fn read_to_end(&mut self, buf: &mut Vec<u8>) -> (r: Result<usize>)
            ensures r.is_ok() ==> age_dec(old(self).pass(), old(self).ct()).is_some()
                && final(buf)@ == old(buf)@ + age_dec(old(self).pass(), old(self).ct()).unwrap(),
        { unimplemented!() }
    }
}
