// ===========================================================================
// prelude/types.rs — stand-ins for small third-party value types
// ===========================================================================

/// uuid::Uuid — 16 bytes (uuid-1.x: as_bytes / from_bytes are field access)
#[derive(Clone, Copy, Default)]
pub struct Uuid(pub [u8; 16]);
impl Uuid {
    pub fn as_bytes(&self) -> (r: &[u8; 16])
        ensures *r == self.0,
    { &self.0 }
    pub fn from_bytes(b: [u8; 16]) -> (r: Uuid)
        ensures r.0 == b,
    { Uuid(b) }
}
pub type SecretId = Uuid;
pub type VaultId = Uuid;

/// bitflags! { struct VaultFlags: u64 } in crates/core/src/lib.rs — code behind a
/// macro; stand-in with the macro's documented meaning: from_bits accepts
/// exactly the values whose set bits are all defined flags (bits 0..=9).
#[derive(Clone, Copy, Default)]
pub struct VaultFlags { pub b: u64 }
pub spec const VAULT_FLAGS_ALL: u64 = 0x3ff;
impl VaultFlags {
    /// Assumed type invariant: a VaultFlags value holds defined bits only
    /// (bitflags constructors other than from_bits_retain keep this;
    /// from_bits_retain is not used in /repo — checked by the assumption scan).
    #[verifier::external_body]
    pub fn bits(&self) -> (r: u64)
        ensures r == self.b, (r & !VAULT_FLAGS_ALL) == 0,
    { self.b }
    #[verifier::external_body]
    pub fn from_bits(x: u64) -> (r: Option<VaultFlags>)
        ensures
            r.is_some() <==> (x & !VAULT_FLAGS_ALL) == 0,
            r.is_some() ==> r.unwrap().b == x,
    { if x & !0x3ff == 0 { Some(VaultFlags { b: x }) } else { None } }
    pub open spec fn wf(self) -> bool { (self.b & !VAULT_FLAGS_ALL) == 0 }
    /// bitflags 2.x generated API (set operations on the bits)
    pub fn insert(&mut self, other: VaultFlags)
        ensures final(self).b == old(self).b | other.b,
    { self.b = self.b | other.b; }
    pub fn remove(&mut self, other: VaultFlags)
        ensures final(self).b == old(self).b & !other.b,
    { self.b = self.b & !other.b; }
    pub fn toggle(&mut self, other: VaultFlags)
        ensures final(self).b == old(self).b ^ other.b,
    { self.b = self.b ^ other.b; }
    pub fn set(&mut self, other: VaultFlags, value: bool)
        ensures final(self).b == (if value { old(self).b | other.b } else { old(self).b & !other.b }),
    { if value { self.b = self.b | other.b; } else { self.b = self.b & !other.b; } }
    pub fn contains(&self, other: VaultFlags) -> (r: bool)
        ensures r == ((self.b & other.b) == other.b),
    { (self.b & other.b) == other.b }
    pub fn intersects(&self, other: VaultFlags) -> (r: bool)
        ensures r == ((self.b & other.b) != 0),
    { (self.b & other.b) != 0 }
    pub fn union(self, other: VaultFlags) -> (r: VaultFlags)
        ensures r.b == self.b | other.b,
    { VaultFlags { b: self.b | other.b } }
    pub fn empty() -> (r: VaultFlags)
        ensures r.b == 0,
    { VaultFlags { b: 0 } }
    pub fn is_empty(&self) -> (r: bool)
        ensures r == (self.b == 0),
    { self.b == 0 }
}

// ---- time crate (0.3, default range: years -9999..=9999) ---------------------
pub spec const TS_MIN: int = -377705116800;
pub spec const TS_MAX: int = 253402300799;

/// time::OffsetDateTime in UTC, viewed as (unix seconds, nanosecond)
#[verifier::external_body]
#[derive(Clone, Copy)]
pub struct OffsetDateTime { _p: () }
pub ghost struct Instant { pub secs: int, pub nanos: int }
impl View for OffsetDateTime {
    type V = Instant;
    uninterp spec fn view(&self) -> Instant;
}
#[derive(Debug)]
pub struct ComponentRange { pub _p: () }
#[verifier::external_body]
#[derive(Clone, Copy)]
pub struct Duration { _p: () }
impl View for Duration {
    type V = int;   // whole nanoseconds
    uninterp spec fn view(&self) -> int;
}
impl Duration {
    #[verifier::external_body]
    pub fn nanoseconds(n: i64) -> (r: Duration)
        ensures r@ == n,
    { unimplemented!() }
}
pub open spec fn instant_wf(i: Instant) -> bool {
    TS_MIN <= i.secs <= TS_MAX && 0 <= i.nanos < 1_000_000_000
}
pub open spec fn instant_add(i: Instant, nanos: int) -> Instant {
    let total = i.nanos + nanos;
    Instant { secs: i.secs + total / 1_000_000_000, nanos: total % 1_000_000_000 }
}
impl OffsetDateTime {
    #[verifier::external_body]
    pub fn now_utc() -> (r: OffsetDateTime)
        ensures instant_wf(r@),
    { unimplemented!() }
    /// Err(ComponentRange) outside the supported range
    #[verifier::external_body]
    pub fn from_unix_timestamp(s: i64) -> (r: core::result::Result<OffsetDateTime, ComponentRange>)
        ensures
            r.is_ok() <==> TS_MIN <= s <= TS_MAX,
            r.is_ok() ==> r.unwrap()@ == (Instant { secs: s as int, nanos: 0 }),
    { unimplemented!() }
    #[verifier::external_body]
    pub fn unix_timestamp(self) -> (r: i64)
        ensures r == self@.secs, instant_wf(self@),
    { unimplemented!() }
    #[verifier::external_body]
    pub fn nanosecond(self) -> (r: u32)
        ensures r == self@.nanos, instant_wf(self@),
    { unimplemented!() }
    #[verifier::external_body]
    pub fn unix_timestamp_nanos(self) -> (r: i128)
        ensures r == self@.secs * 1_000_000_000 + self@.nanos, instant_wf(self@),
    { unimplemented!() }
    /// checked_add: None when the sum leaves the supported range
    #[verifier::external_body]
    pub fn checked_add(self, d: Duration) -> (r: Option<OffsetDateTime>)
        ensures
            instant_wf(self@) ==> (r.is_some() <==> instant_wf(instant_add(self@, d@))),
            r.is_some() ==> r.unwrap()@ == instant_add(self@, d@),
    { unimplemented!() }
}
