// ===========================================================================
// prelude/log_spec_file.rs — SPECIFICATION of the event-log file: `Log`,
// `log_wf`, `file_of`, and the lemmas that connect an event-log file to what
// the row iterator (log_spec_rows.rs) yields for `T = EventLogRecord`.
// No assumption in this file.  Included at top level of units `stream` and
// `log`, after `EventLogRecord` and its `Decodable` impl.
// ===========================================================================

pub type Log = Seq<EventRecordV>;

pub open spec fn zero32() -> Seq<u8> { Seq::new(32, |i: int| 0u8) }

/// every record is valid for the codec
pub open spec fn log_valid(l: Log) -> bool {
    forall|i: int| 0 <= i < l.len() ==> valid_EventRecord(#[trigger] l[i])
}
/// the hash chain: the first record points at the all-zero hash, every later
/// one at the commit of its predecessor
pub open spec fn log_chained(l: Log) -> bool {
    &&& (l.len() > 0 ==> l[0].last_commit == zero32())
    &&& forall|i: int| 0 <= i < l.len() - 1 ==> (#[trigger] l[i + 1]).last_commit == l[i].commit
}
pub open spec fn rows_of(l: Log) -> Seq<Seq<u8>> { Seq::new(l.len(), |i: int| enc_EventRecord(l[i])) }
pub open spec fn commits_of(l: Log) -> Seq<Seq<u8>> { Seq::new(l.len(), |i: int| l[i].commit) }

/// identity bytes, optional encoding version (u16 LE), then the rows
pub open spec fn header_of(identity: Seq<u8>, version: Option<u16>) -> Seq<u8> {
    match version { Some(v) => identity + le16(v), None => identity }
}
pub open spec fn file_of(identity: Seq<u8>, version: Option<u16>, l: Log) -> Seq<u8> {
    header_of(identity, version) + concat(rows_of(l))
}

/// bytes in front of the event bytes inside a row: length word, time, two hashes, event length
pub spec const ROW_VALUE_OFFSET: int = 84int;

pub proof fn lemma_enc_EventRecord_len(v: EventRecordV)
    requires valid_EventRecord(v),
    ensures
        enc_EventRecord_body(v).len() == 80 + v.event.len(),
        enc_EventRecord(v).len() == 88 + v.event.len(),
        framed(enc_EventRecord(v)),
{
    let body = enc_EventRecord_body(v);
    let n = body.len() as u32;
    assert(enc_EventRecord(v).subrange(0, 4) =~= le32(n));
    assert(enc_EventRecord(v).subrange(enc_EventRecord(v).len() - 4, enc_EventRecord(v).len() as int) =~= le32(n));
}
pub proof fn lemma_rows_framed(l: Log)
    requires log_valid(l),
    ensures forall|k: int| 0 <= k < rows_of(l).len() ==> framed(#[trigger] rows_of(l)[k]),
{
    assert forall|k: int| 0 <= k < rows_of(l).len() implies framed(#[trigger] rows_of(l)[k]) by {
        lemma_enc_EventRecord_len(l[k]);
    }
}
pub proof fn lemma_file_of_rows(identity: Seq<u8>, version: Option<u16>, l: Log)
    requires log_valid(l),
    ensures file_rows(file_of(identity, version, l), header_of(identity, version).len() as int, rows_of(l)),
{
    lemma_rows_framed(l);
    let b = file_of(identity, version, l);
    let h = header_of(identity, version).len() as int;
    assert(b.subrange(h, b.len() as int) =~= concat(rows_of(l)));
}
pub proof fn lemma_rows_of_add(a: Log, b: Log)
    ensures rows_of(a + b) == rows_of(a) + rows_of(b), commits_of(a + b) == commits_of(a) + commits_of(b),
{
    assert(rows_of(a + b) =~= rows_of(a) + rows_of(b));
    assert(commits_of(a + b) =~= commits_of(a) + commits_of(b));
}
pub proof fn lemma_rows_of_take(l: Log, k: int)
    requires 0 <= k <= l.len(),
    ensures rows_of(l.take(k)) == rows_of(l).take(k), commits_of(l.take(k)) == commits_of(l).take(k),
{
    assert(rows_of(l.take(k)) =~= rows_of(l).take(k));
    assert(commits_of(l.take(k)) =~= commits_of(l).take(k));
}
/// appending records appends their rows to the file
pub proof fn lemma_file_of_add(identity: Seq<u8>, version: Option<u16>, a: Log, b: Log)
    ensures file_of(identity, version, a + b) == file_of(identity, version, a) + concat(rows_of(b)),
{
    lemma_rows_of_add(a, b);
    lemma_concat_add(rows_of(a), rows_of(b));
    assert(header_of(identity, version) + (concat(rows_of(a)) + concat(rows_of(b))) =~= header_of(identity, version) + concat(rows_of(a)) + concat(rows_of(b)));
}
/// the file of a prefix of the log is a prefix of the file
pub proof fn lemma_file_of_take(identity: Seq<u8>, version: Option<u16>, l: Log, k: int)
    requires 0 <= k <= l.len(), log_valid(l),
    ensures
        file_of(identity, version, l.take(k)) == file_of(identity, version, l).subrange(0, header_of(identity, version).len() + off(rows_of(l), k)),
        header_of(identity, version).len() + off(rows_of(l), k) <= file_of(identity, version, l).len(),
{
    lemma_rows_of_take(l, k);
    let rows = rows_of(l);
    assert(l =~= l.take(k) + l.skip(k));
    lemma_file_of_add(identity, version, l.take(k), l.skip(k));
    let f = file_of(identity, version, l.take(k));
    assert(f.len() == header_of(identity, version).len() + off(rows, k));
    assert((f + concat(rows_of(l.skip(k)))).subrange(0, f.len() as int) =~= f);
}

/// decoding the record part of a row body (time, two hashes) and the value length behind it
pub proof fn lemma_dec_elr(v: EventRecordV, tail2: Seq<u8>)
    requires valid_EventRecord(v),
    ensures ({
        let rest = le32(v.event.len() as u32) + (v.event + tail2);
        &&& dec_EventLogRecord(enc_UtcDateTime(v.time) + (v.last_commit + (v.commit + rest)))
                == Some((ElrV { time: v.time, last_commit: v.last_commit, commit: v.commit }, rest))
        &&& r_u32(rest) == Some((v.event.len() as u32, v.event + tail2))
    }),
{
    let rest = le32(v.event.len() as u32) + (v.event + tail2);
    let t2 = v.commit + rest;
    let t1 = v.last_commit + t2;
    lemma_roundtrip_UtcDateTime(v.time, t1);
    lemma_take_n_concat(v.last_commit, t2);
    lemma_take_n_concat(v.commit, rest);
    lemma_le32(v.event.len() as u32);
    lemma_take_n_concat(le32(v.event.len() as u32), v.event + tail2);
}
/// the bytes of a row (followed by anything) behind its leading length word, and where the event bytes sit
pub proof fn lemma_row_layout(v: EventRecordV, tail: Seq<u8>)
    requires valid_EventRecord(v),
    ensures ({
        let row = enc_EventRecord(v);
        let n = enc_EventRecord_body(v).len() as u32;
        &&& (row + tail).subrange(4, (row + tail).len() as int)
                == enc_UtcDateTime(v.time) + (v.last_commit + (v.commit + (le32(v.event.len() as u32) + (v.event + (le32(n) + tail)))))
        &&& row.subrange(ROW_VALUE_OFFSET, ROW_VALUE_OFFSET + v.event.len()) == v.event
        &&& row.len() == 88 + v.event.len()
    }),
{
    let row = enc_EventRecord(v);
    let n = enc_EventRecord_body(v).len() as u32;
    lemma_enc_EventRecord_len(v);
    lemma_le32(n);
    assert((row + tail).subrange(4, (row + tail).len() as int)
        =~= enc_UtcDateTime(v.time) + (v.last_commit + (v.commit + (le32(v.event.len() as u32) + (v.event + (le32(n) + tail))))));
    assert(row.subrange(ROW_VALUE_OFFSET, ROW_VALUE_OFFSET + v.event.len()) =~= v.event);
}

/// a stream that holds the row of `v` at [p, q): what `read_row` makes of it
#[verifier::spinoff_prover]
pub proof fn lemma_event_row_at(b: Seq<u8>, p: int, q: int, v: EventRecordV)
    requires 0 <= p <= q <= b.len(), b.subrange(p, q) == enc_EventRecord(v), valid_EventRecord(v),
    ensures
        parse_row::<EventLogRecord>(b, p, q, true)
            == Some(ItemV {
                d: ElrV { time: v.time, last_commit: v.last_commit, commit: v.commit },
                off: (p, q),
                val: (p + ROW_VALUE_OFFSET, p + ROW_VALUE_OFFSET + v.event.len()),
            }),
        q - p == 88 + v.event.len(),
        b.subrange(p + ROW_VALUE_OFFSET, p + ROW_VALUE_OFFSET + v.event.len()) == v.event,
{
    let row = enc_EventRecord(v);
    let n = enc_EventRecord_body(v).len() as u32;
    let tail = b.subrange(q, b.len() as int);
    lemma_row_layout(v, tail);
    lemma_dec_elr(v, le32(n) + tail);
    assert(q - p == row.len());
    let s = b.subrange(p + 4, b.len() as int);
    let whole = b.subrange(p, b.len() as int);
    assert(whole =~= row + tail);
    assert(s =~= whole.subrange(4, whole.len() as int));
    let rest = le32(v.event.len() as u32) + (v.event + (le32(n) + tail));
    let rest2 = v.event + (le32(n) + tail);
    assert(s == enc_UtcDateTime(v.time) + (v.last_commit + (v.commit + rest)));
    assert(EventLogRecord::dec_of(s) == Some((ElrV { time: v.time, last_commit: v.last_commit, commit: v.commit }, rest)));
    assert(r_u32(rest) == Some((v.event.len() as u32, rest2)));
    assert(rest2.len() == v.event.len() + 4 + (b.len() - q));
    assert(b.len() - rest2.len() == p + ROW_VALUE_OFFSET);
    assert(b.subrange(p + ROW_VALUE_OFFSET, p + ROW_VALUE_OFFSET + v.event.len()) =~= b.subrange(p, q).subrange(ROW_VALUE_OFFSET, ROW_VALUE_OFFSET + v.event.len()));
}

/// What the iterator yields for row k of an event-log file: the record's time
/// and hashes, the byte range of the row, and as value range exactly the
/// bytes of the event.
pub proof fn lemma_event_row(b: Seq<u8>, h: int, l: Log, k: int)
    requires file_rows(b, h, rows_of(l)), log_valid(l), 0 <= k < l.len(),
    ensures
        parse_row::<EventLogRecord>(b, h + off(rows_of(l), k), h + off(rows_of(l), k + 1), true)
            == Some(ItemV {
                d: ElrV { time: l[k].time, last_commit: l[k].last_commit, commit: l[k].commit },
                off: (h + off(rows_of(l), k), h + off(rows_of(l), k + 1)),
                val: (h + off(rows_of(l), k) + ROW_VALUE_OFFSET, h + off(rows_of(l), k) + ROW_VALUE_OFFSET + l[k].event.len()),
            }),
        off(rows_of(l), k + 1) == off(rows_of(l), k) + 88 + l[k].event.len(),
        0 <= off(rows_of(l), k),
        h + off(rows_of(l), k + 1) <= b.len(),
        b.subrange(h + off(rows_of(l), k) + ROW_VALUE_OFFSET, h + off(rows_of(l), k) + ROW_VALUE_OFFSET + l[k].event.len()) == l[k].event,
{
    let rows = rows_of(l);
    lemma_file_row(b, h, rows, k);
    assert(rows[k] == enc_EventRecord(l[k]));
    lemma_event_row_at(b, h + off(rows, k), h + off(rows, k + 1), l[k]);
}
