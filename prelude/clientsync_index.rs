// ===========================================================================
// prelude/clientsync_index.rs — stand-in for `sos_search::SearchIndex`
// (crates/search/src/search.rs) as the unit `clientsync` uses it.
// The contracts are the labels PROVED in unit `search` (units/search.vrs), restated
// over a document map keyed by the BYTES of (folder id, secret id) — unit `search`
// keys it by the `Uuid` values themselves (`Uuid(pub [u8; 16])`, equal exactly when
// the 16 bytes are equal) — and holding the WHOLE `SecretMeta` of a document (the
// real `Document` stores a clone of it; label, tags, kind and favourite flag that
// C20 talks about are fields of it).  Everything `external_body` / `uninterp` here is
// an ASSUMPTION.  Included at top level after prelude/clientsync_ap.rs.
// ===========================================================================

/// a live secret is identified by (folder id bytes, secret id bytes)
pub type DocId = (Seq<u8>, Seq<u8>);
/// unit search `MetaV`: label, tags, kind, favourite flag
#[verifier::external_body]
pub ghost struct IdxMeta { _p: () }
/// the four fields of a secret's meta data that a document carries
pub uninterp spec fn idx_meta(m: SecretMetaV) -> IdxMeta;
/// the lower-cased label: the part of the meta data that enters the document key
pub uninterp spec fn label_key(m: IdxMeta) -> Seq<char>;
/// secret.rs:421 `touch` sets `last_updated` only: label, tags, kind, favourite flag are kept
pub broadcast axiom fn axiom_touch_keeps_idx_meta(m: SecretMetaV)
    ensures #[trigger] idx_meta(touched(m)) == idx_meta(m);

/// search.rs `struct Document { folder_id, secret_id, meta, extra }` — opaque
#[verifier::external_body]
pub struct Document { _p: () }
impl Document {
    pub uninterp spec fn did(&self) -> DocId;
    pub uninterp spec fn dmeta(&self) -> IdxMeta;
}
/// search.rs `struct DocumentKey(String, VaultId, SecretId)` — opaque
#[verifier::external_body]
pub struct DocumentKey { _p: () }
impl DocumentKey {
    /// unit search: `k@ == key_of(d@)` (lower-cased label, folder id, secret id of `d`)
    pub uninterp spec fn for_doc(&self, d: Document) -> bool;
}

/// the documents of the folders other than `f` are the same in `a` and `b`
pub open spec fn other_folders_same(a: Map<DocId, IdxMeta>, b: Map<DocId, IdxMeta>, f: Seq<u8>) -> bool {
    forall|d: DocId| #![trigger a.contains_key(d)] #![trigger b.contains_key(d)] d.0 != f ==>
        (a.contains_key(d) <==> b.contains_key(d)) && (a.contains_key(d) ==> a[d] == b[d])
}
/// unit search `without_folder`
pub open spec fn without_folder(docs: Map<DocId, IdxMeta>, f: Seq<u8>) -> Map<DocId, IdxMeta> {
    docs.restrict(docs.dom().filter(|d: DocId| d.0 != f))
}

/// search.rs `struct SearchIndex { index, documents, statistics }`.  Abstract state (unit
/// search `IndexView`): `docs()` the document map, `archive()` the archive folder id;
/// `inv()` = IDX_INV of unit search (documents keyed by (folder, secret), probly-search keys ==
/// document keys, counters == recount(docs, archive)).
#[verifier::external_body]
pub struct SearchIndex { _p: () }
impl SearchIndex {
    pub uninterp spec fn docs(&self) -> Map<DocId, IdxMeta>;
    pub uninterp spec fn archive(&self) -> Option<Seq<u8>>;
    pub uninterp spec fn inv(&self) -> bool;

    /// unit search [prepare_some_iff_absent], [prepare_value]
    #[verifier::external_body]
    pub fn prepare(&self, folder_id: &VaultId, id: &SecretId, meta: &SecretMeta, secret: &Secret) -> (r: Option<(DocumentKey, Document)>)
        requires self.inv(),
        ensures
            r.is_some() == !self.docs().contains_key((folder_id@, id@)),
            r matches Some((k, d)) ==> d.did() == (folder_id@, id@) && d.dmeta() == idx_meta(meta@) && k.for_doc(d),
    { unimplemented!() }
    /// unit search [commit_keeps_inv], [commit_view].  Precondition of unit search: `k@ == key_of(d@)`
    /// and "an indexed (folder, secret) is stored under `k`".  Under IDX_INV the stored key of an
    /// indexed (folder, secret) is (lower-cased label of the stored document, folder, secret)
    /// (`keyed` + lemma_docs_all of unit search), so the second part is stated here as: the stored
    /// document and `d` have the same lower-cased label.
    #[verifier::external_body]
    pub fn commit(&mut self, doc: Option<(DocumentKey, Document)>)
        requires
            old(self).inv(),
            doc matches Some((k, d)) ==> k.for_doc(d) && (old(self).docs().contains_key(d.did()) ==> label_key(old(self).docs()[d.did()]) == label_key(d.dmeta())), /*@PL:commit_key_matches_stored*/
        ensures
            final(self).inv(), final(self).archive() == old(self).archive(),
            final(self).docs() == (match doc {
                Some((k, d)) => if old(self).docs().contains_key(d.did()) { old(self).docs() } else { old(self).docs().insert(d.did(), d.dmeta()) },
                None => old(self).docs() }),
    { unimplemented!() }
    /// unit search [add_keeps_inv], [add_view] (`prepare` + `commit`: an indexed document is kept)
    #[verifier::external_body]
    pub fn add(&mut self, folder_id: &VaultId, id: &SecretId, meta: &SecretMeta, secret: &Secret)
        requires old(self).inv(),
        ensures
            final(self).inv(), final(self).archive() == old(self).archive(),
            final(self).docs() == (if old(self).docs().contains_key((folder_id@, id@)) { old(self).docs() } else { old(self).docs().insert((folder_id@, id@), idx_meta(meta@)) }),
    { unimplemented!() }
    /// unit search [remove_view], [remove_keeps_inv] (holds since fix 86018de, D15)
    #[verifier::external_body]
    pub fn remove(&mut self, folder_id: &VaultId, id: &SecretId)
        requires old(self).inv(),
        ensures
            final(self).inv(), final(self).archive() == old(self).archive(),
            final(self).docs() == old(self).docs().remove((folder_id@, id@)),
    { unimplemented!() }
    /// unit search [remove_vault_keeps_inv], [remove_vault_view]
    #[verifier::external_body]
    pub fn remove_vault(&mut self, folder_id: &VaultId)
        requires old(self).inv(),
        ensures
            final(self).inv(), final(self).archive() == old(self).archive(),
            final(self).docs() == without_folder(old(self).docs(), folder_id@),
    { unimplemented!() }
    /// unit search [remove_all_keeps_inv], [remove_all_view]
    #[verifier::external_body]
    pub fn remove_all(&mut self)
        requires old(self).inv(),
        ensures
            final(self).inv(), final(self).archive() == old(self).archive(),
            final(self).docs() == Map::<DocId, IdxMeta>::empty(),
    { unimplemented!() }
    // -- further methods of the real type with a label proved in unit search, so that an edit that calls
    //    one of them still composes --
    /// unit search [update_keeps_inv], [update_view] (search.rs:593 `remove` + `add`: the document is replaced or added)
    #[verifier::external_body]
    pub fn update(&mut self, folder_id: &VaultId, id: &SecretId, meta: &SecretMeta, secret: &Secret)
        requires old(self).inv(),
        ensures
            final(self).inv(), final(self).archive() == old(self).archive(),
            final(self).docs() == old(self).docs().insert((folder_id@, id@), idx_meta(meta@)),
    { unimplemented!() }
    /// unit search [find_by_id_iff_indexed], [find_by_id_value]
    #[verifier::external_body]
    pub fn find_by_id(&self, folder_id: &VaultId, id: &SecretId) -> (r: Option<&Document>)
        requires self.inv(),
        ensures
            r.is_some() == self.docs().contains_key((folder_id@, id@)),
            r matches Some(d) ==> d.did() == (folder_id@, id@) && d.dmeta() == self.docs()[(folder_id@, id@)],
    { unimplemented!() }
    /// unit search [len_is_doc_count]
    #[verifier::external_body]
    pub fn len(&self) -> (r: usize)
        requires self.inv(),
        ensures r == self.docs().len(),
    { unimplemented!() }
    /// unit search [is_empty_iff_no_docs]
    #[verifier::external_body]
    pub fn is_empty(&self) -> (r: bool)
        requires self.inv(),
        ensures r == (self.docs().len() == 0),
    { unimplemented!() }
}
