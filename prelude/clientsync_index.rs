// ===========================================================================
// prelude/clientsync_index.rs — stand-in for `sos_search::SearchIndex`
// (crates/search/src/search.rs) as the unit `clientsync` uses it.
// The contracts are the labels PROVED in unit `search` (units/search.vrs), restated
// over a document map keyed by the BYTES of (folder id, secret id) — unit `search`
// keys it by the `Uuid` values themselves (`Uuid(pub [u8; 16])`, equal exactly when
// the 16 bytes are equal) — and holding the WHOLE `SecretMeta` of a document (the
// real `Document` stores a clone of it; label, tags, kind and favourite flag that
// C20 talks about are fields of it).  Everything `external_body` / `uninterp` here is
// an ASSUMPTION.  Included at top level after prelude/clientsync_ap.rs.
// ===========================================================================

/// a live secret is identified by (folder id bytes, secret id bytes)
pub type DocId = (Seq<u8>, Seq<u8>);
/// unit search `MetaV`: label, tags, kind, favourite flag
#[verifier::external_body]
pub ghost struct IdxMeta { _p: () }
/// the four fields of a secret's meta data that a document carries
pub uninterp spec fn idx_meta(m: SecretMetaV) -> IdxMeta;
/// the lower-cased label: the part of the meta data that enters the document key
pub uninterp spec fn label_key(m: IdxMeta) -> Seq<char>;
/// secret.rs:421 `touch` sets `last_updated` only: label, tags, kind, favourite flag are kept
pub broadcast axiom fn axiom_touch_keeps_idx_meta(m: SecretMetaV)
    ensures #[trigger] idx_meta(touched(m)) == idx_meta(m);

/// search.rs `struct Document { folder_id, secret_id, meta, extra }` — opaque
#[verifier::external_body]
pub struct Document { _p: () }
impl Document {
    pub uninterp spec fn did(&self) -> DocId;
    pub uninterp spec fn dmeta(&self) -> IdxMeta;
}
/// search.rs `struct DocumentKey(String, VaultId, SecretId)` — opaque
#[verifier::external_body]
pub struct DocumentKey { _p: () }
impl DocumentKey {
    /// unit search: `k@ == key_of(d@)` (lower-cased label, folder id, secret id of `d`)
    pub uninterp spec fn for_doc(&self, d: Document) -> bool;
}

/// the documents of the folders other than `f` are the same in `a` and `b`
pub open spec fn other_folders_same(a: Map<DocId, IdxMeta>, b: Map<DocId, IdxMeta>, f: Seq<u8>) -> bool {
    forall|d: DocId| #![trigger a.contains_key(d)] #![trigger b.contains_key(d)] d.0 != f ==>
        (a.contains_key(d) <==> b.contains_key(d)) && (a.contains_key(d) ==> a[d] == b[d])
}
/// unit search `without_folder`
pub open spec fn without_folder(docs: Map<DocId, IdxMeta>, f: Seq<u8>) -> Map<DocId, IdxMeta> {
    docs.restrict(docs.dom().filter(|d: DocId| d.0 != f))
}

/// unit search `StatsView` (what `DocumentCount` keeps: documents per folder, per kind with the archive
/// folder left out, per tag, favourites) — opaque; the per-kind counters are read through `stats_kind`
#[verifier::external_body]
pub ghost struct StatsV { _p: () }
/// unit search `s.kinds[kd]` (`DocumentCount::kinds()`, [kinds_is_view])
pub uninterp spec fn stats_kind(s: StatsV, kd: u8) -> nat;
/// unit search `secret_type_code(&m.kind)`: the kind byte of a document's meta data
pub uninterp spec fn kind_code(m: IdxMeta) -> u8;
/// unit search `recount(docs, archive)`: "the statistics of an index built from scratch over `docs`"
pub uninterp spec fn recount(docs: Map<DocId, IdxMeta>, archive: Option<Seq<u8>>) -> StatsV;
/// unit search `cnt(docs, p_kind(archive, kd))`: the documents of kind `kd` OUTSIDE the archive folder
pub open spec fn kind_recount(docs: Map<DocId, IdxMeta>, archive: Option<Seq<u8>>, kd: u8) -> nat {
    docs.dom().filter(|d: DocId| Some(d.0) != archive && kind_code(docs[d]) == kd).len()
}
/// unit search `recount`: `kinds: IMap::total(|kd: u8| cnt(docs, p_kind(archive, kd)))` (definition)
pub axiom fn axiom_recount_kinds(docs: Map<DocId, IdxMeta>, archive: Option<Seq<u8>>)
    ensures forall|kd: u8| stats_kind(recount(docs, archive), kd) == #[trigger] kind_recount(docs, archive, kd);
/// unit search `lemma_inv_view` (IDX_INV part 2, `inv_counters`): under IDX_INV the counters equal a recount
/// over the documents with the archive folder id the index holds
pub axiom fn axiom_inv_counters(x: SearchIndex)
    requires x.inv(),
    ensures x.stats() == recount(x.docs(), x.archive());
/// hypothesis of unit search [set_archive_keeps_inv]: no indexed document belongs to the folder that was
/// or that becomes the archive folder
pub open spec fn archive_switch_safe(docs: Map<DocId, IdxMeta>, a1: Option<Seq<u8>>, a2: Option<Seq<u8>>) -> bool {
    forall|d: DocId| #[trigger] docs.contains_key(d) ==> Some(d.0) != a1 && Some(d.0) != a2
}
/// the view of an optional folder id
pub open spec fn opt_id(a: Option<VaultId>) -> Option<Seq<u8>> {
    match a { Some(x) => Some(x@), None => None }
}

/// search.rs:100 `struct DocumentCount { vaults, kinds, tags, favorites, archive }` — opaque; `sview()` = unit
/// search `DocumentCount@`, `archive_id()` as there
#[verifier::external_body]
pub struct DocumentCount { _p: () }
impl DocumentCount {
    pub uninterp spec fn sview(&self) -> StatsV;
    pub uninterp spec fn archive_id(&self) -> Option<Seq<u8>>;
}
impl Clone for DocumentCount {
    /// search.rs:101 `#[derive(Default, Debug, Clone)]`: field-wise clone (`HashMap::clone`, `usize`, `Option<VaultId>`)
    #[verifier::external_body]
    fn clone(&self) -> (r: DocumentCount)
        ensures r.sview() == self.sview(), r.archive_id() == self.archive_id(),
    { unimplemented!() }
}
impl Default for DocumentCount {
    /// search.rs:101 `#[derive(Default)]`: empty maps, zero, `None` (no contract: only built when there is no index)
    #[verifier::external_body]
    fn default() -> (r: DocumentCount) { unimplemented!() }
}
/// search.rs:248 `struct IndexStatistics { count: DocumentCount }` — opaque
#[verifier::external_body]
pub struct IndexStatistics { _p: () }
impl IndexStatistics {
    pub uninterp spec fn sview(&self) -> StatsV;
    pub uninterp spec fn archive_id(&self) -> Option<Seq<u8>>;
    /// unit search IndexStatistics [count_is_field]
    #[verifier::external_body]
    pub fn count(&self) -> (r: &DocumentCount)
        ensures r.sview() == self.sview(), r.archive_id() == self.archive_id(),
    { unimplemented!() }
}

/// search.rs `struct SearchIndex { index, documents, statistics }`.  Abstract state (unit
/// search `IndexView`): `docs()` the document map, `archive()` the archive folder id, `stats()` the counters;
/// `inv()` = IDX_INV of unit search (documents keyed by (folder, secret), probly-search keys ==
/// document keys, counters == recount(docs, archive)).
#[verifier::external_body]
pub struct SearchIndex { _p: () }
impl SearchIndex {
    pub uninterp spec fn docs(&self) -> Map<DocId, IdxMeta>;
    pub uninterp spec fn archive(&self) -> Option<Seq<u8>>;
    pub uninterp spec fn inv(&self) -> bool;
    /// unit search `self@.stats`: the counters (`statistics.count`)
    pub uninterp spec fn stats(&self) -> StatsV;

    /// unit search SearchIndex [set_archive_view] (documents, keys and COUNTERS are as they were, the archive id
    /// is the one given) and [set_archive_keeps_inv] (IDX_INV is kept when no indexed document belongs to the old
    /// or to the new archive folder; nothing is promised otherwise: the per-kind counters are not recounted)
    #[verifier::external_body]
    pub fn set_archive_id(&mut self, archive: Option<VaultId>)
        requires old(self).inv(),
        ensures
            final(self).docs() == old(self).docs(), final(self).stats() == old(self).stats(), final(self).archive() == opt_id(archive),
            archive_switch_safe(old(self).docs(), old(self).archive(), opt_id(archive)) ==> final(self).inv(),
    { unimplemented!() }
    /// unit search SearchIndex [statistics_is_view]
    #[verifier::external_body]
    pub fn statistics(&self) -> (r: &IndexStatistics)
        ensures r.sview() == self.stats(), r.archive_id() == self.archive(),
    { unimplemented!() }

    /// unit search [prepare_some_iff_absent], [prepare_value]
    #[verifier::external_body]
    pub fn prepare(&self, folder_id: &VaultId, id: &SecretId, meta: &SecretMeta, secret: &Secret) -> (r: Option<(DocumentKey, Document)>)
        requires self.inv(),
        ensures
            r.is_some() == !self.docs().contains_key((folder_id@, id@)),
            r matches Some((k, d)) ==> d.did() == (folder_id@, id@) && d.dmeta() == idx_meta(meta@) && k.for_doc(d),
    { unimplemented!() }
    /// unit search [commit_keeps_inv], [commit_view].  Precondition of unit search: `k@ == key_of(d@)`
    /// and "an indexed (folder, secret) is stored under `k`".  Under IDX_INV the stored key of an
    /// indexed (folder, secret) is (lower-cased label of the stored document, folder, secret)
    /// (`keyed` + lemma_docs_all of unit search), so the second part is stated here as: the stored
    /// document and `d` have the same lower-cased label.
    #[verifier::external_body]
    pub fn commit(&mut self, doc: Option<(DocumentKey, Document)>)
        requires
            old(self).inv(),
            doc matches Some((k, d)) ==> k.for_doc(d) && (old(self).docs().contains_key(d.did()) ==> label_key(old(self).docs()[d.did()]) == label_key(d.dmeta())), /*@PL:commit_key_matches_stored*/
        ensures
            final(self).inv(), final(self).archive() == old(self).archive(),
            final(self).docs() == (match doc {
                Some((k, d)) => if old(self).docs().contains_key(d.did()) { old(self).docs() } else { old(self).docs().insert(d.did(), d.dmeta()) },
                None => old(self).docs() }),
    { unimplemented!() }
    /// unit search [add_keeps_inv], [add_view] (`prepare` + `commit`: an indexed document is kept)
    #[verifier::external_body]
    pub fn add(&mut self, folder_id: &VaultId, id: &SecretId, meta: &SecretMeta, secret: &Secret)
        requires old(self).inv(),
        ensures
            final(self).inv(), final(self).archive() == old(self).archive(),
            final(self).docs() == (if old(self).docs().contains_key((folder_id@, id@)) { old(self).docs() } else { old(self).docs().insert((folder_id@, id@), idx_meta(meta@)) }),
    { unimplemented!() }
    /// unit search [remove_view], [remove_keeps_inv] (holds since fix 86018de, D15)
    #[verifier::external_body]
    pub fn remove(&mut self, folder_id: &VaultId, id: &SecretId)
        requires old(self).inv(),
        ensures
            final(self).inv(), final(self).archive() == old(self).archive(),
            final(self).docs() == old(self).docs().remove((folder_id@, id@)),
    { unimplemented!() }
    /// unit search [remove_vault_keeps_inv], [remove_vault_view]
    #[verifier::external_body]
    pub fn remove_vault(&mut self, folder_id: &VaultId)
        requires old(self).inv(),
        ensures
            final(self).inv(), final(self).archive() == old(self).archive(),
            final(self).docs() == without_folder(old(self).docs(), folder_id@),
    { unimplemented!() }
    /// unit search [remove_all_keeps_inv], [remove_all_view]
    #[verifier::external_body]
    pub fn remove_all(&mut self)
        requires old(self).inv(),
        ensures
            final(self).inv(), final(self).archive() == old(self).archive(),
            final(self).docs() == Map::<DocId, IdxMeta>::empty(),
    { unimplemented!() }
    // -- further methods of the real type with a label proved in unit search, so that an edit that calls
    //    one of them still composes --
    /// unit search [update_keeps_inv], [update_view] (search.rs:593 `remove` + `add`: the document is replaced or added)
    #[verifier::external_body]
    pub fn update(&mut self, folder_id: &VaultId, id: &SecretId, meta: &SecretMeta, secret: &Secret)
        requires old(self).inv(),
        ensures
            final(self).inv(), final(self).archive() == old(self).archive(),
            final(self).docs() == old(self).docs().insert((folder_id@, id@), idx_meta(meta@)),
    { unimplemented!() }
    /// unit search [find_by_id_iff_indexed], [find_by_id_value]
    #[verifier::external_body]
    pub fn find_by_id(&self, folder_id: &VaultId, id: &SecretId) -> (r: Option<&Document>)
        requires self.inv(),
        ensures
            r.is_some() == self.docs().contains_key((folder_id@, id@)),
            r matches Some(d) ==> d.did() == (folder_id@, id@) && d.dmeta() == self.docs()[(folder_id@, id@)],
    { unimplemented!() }
    /// unit search [len_is_doc_count]
    #[verifier::external_body]
    pub fn len(&self) -> (r: usize)
        requires self.inv(),
        ensures r == self.docs().len(),
    { unimplemented!() }
    /// unit search [is_empty_iff_no_docs]
    #[verifier::external_body]
    pub fn is_empty(&self) -> (r: bool)
        requires self.inv(),
        ensures r == (self.docs().len() == 0),
    { unimplemented!() }
}
