// ===========================================================================
// prelude/archive_zip.rs — stand-ins of unit `archive` (C18 kernel, C15).
// Included inside `mod pre` after base.rs, binary_stream.rs, types.rs,
// files_hash.rs and files_fs.rs (uses `BytesLike`, `H`, `Sha256`, `File`, `Fs`).
// Every `external_body`, `uninterp spec fn` and `axiom` below is an ASSUMPTION.
// ===========================================================================

// ---- the zip container (async_zip-0.0.17 behind crates/archive/src/reader.rs) ----
/// A zip archive opened for reading, as `sos_archive::ZipReader::by_name`
/// (crates/archive/src/reader.rs:30-45, read) sees it:
///   `entries[name]`  = the decompressed content of the FIRST entry whose file
///                      name is `name` (by_name walks the central directory in
///                      order and returns at the first match; later duplicates
///                      are invisible to it);
///   `unreadable`     = the names for which the walk fails before it returns
///                      (a non-UTF-8 file name on the way, a CRC / inflate /
///                      I/O error while reading the matching entry).
/// Assumption ZIP-DET: reading is deterministic — the outcome of `by_name`
/// depends only on the archive and the name (no transient I/O error), and
/// reading never changes the archive.
///   `listing`        = EVERY entry of the central directory in order (file name text,
///                      decompressed content), as `extract_files`
///                      (crates/filesystem/src/archive/import.rs:235, read) walks it by index
///                      (`reader.inner().file().entries()` / `reader_without_entry(index)`);
///                      duplicates and directory entries included.
pub ghost struct ZipV {
    pub entries: Map<Seq<char>, Seq<u8>>,
    pub unreadable: Set<Seq<char>>,
    pub listing: Seq<(Seq<char>, Seq<u8>)>,
}
#[verifier::external_body]
#[verifier::reject_recursive_types(R)]
pub struct ZipReader<R> { _r: core::marker::PhantomData<R> }
impl<R> View for ZipReader<R> {
    type V = ZipV;
    uninterp spec fn view(&self) -> ZipV;
}
/// sos_archive::Error (opaque)
#[derive(Debug)]
pub struct ZipError { pub _p: () }
pub type ZipResult<T> = core::result::Result<T, ZipError>;

/// `serde_json::from_slice::<T>` for the manifest types: an uninterpreted
/// partial function of the bytes (serde_json-1.x is not read by the verifier).
pub trait ManifestJson: Sized {
    spec fn from_json(b: Seq<u8>) -> Option<Self>;
}
#[derive(Debug)]
pub struct JsonError { pub _p: () }
impl vstd::std_specs::convert::FromSpecImpl<JsonError> for ZipError {
    open spec fn obeys_from_spec() -> bool { true }
    open spec fn from_spec(e: JsonError) -> ZipError { ZipError { _p: () } }
}
impl From<JsonError> for ZipError { fn from(e: JsonError) -> (r: ZipError) { ZipError { _p: () } } }
pub mod serde_json {
    use vstd::prelude::*;
    use super::{ManifestJson, JsonError};
    /// serde_json-1.x `from_slice::<T>` (see `ManifestJson`)
    #[verifier::external_body]
    pub fn from_slice<T: ManifestJson>(b: &[u8]) -> (r: core::result::Result<T, JsonError>)
        ensures
            r is Ok <==> T::from_json(b@) is Some,
            r is Ok ==> Some(r->Ok_0) == T::from_json(b@),
    { unimplemented!() }
}

/// the archive that a zip file with the given bytes presents (async_zip central
/// directory parsing + inflate: uninterpreted)
pub uninterp spec fn zip_of_bytes(content: Seq<u8>) -> ZipV;
/// a seekable byte source an archive is read from
pub trait ArchiveSource {
    spec fn content(&self) -> Seq<u8>;
}
/// the archive `ZipReader::new(inner)` presents
pub open spec fn zip_of<R: ArchiveSource>(inner: R) -> ZipV { zip_of_bytes(inner.content()) }

impl<R: ArchiveSource> ZipReader<R> {
    /// crates/archive/src/reader.rs:13 `Reader::new` (`ZipFileReader::with_tokio`):
    /// parses the central directory; the archive seen is a function of the
    /// bytes of the underlying reader.
    #[verifier::external_body]
    pub fn new(inner: R) -> (r: ZipResult<Self>)
        ensures r matches Ok(z) ==> z@ == zip_of(inner),
    { unimplemented!() }
}
impl<R> ZipReader<R> {

    /// crates/archive/src/reader.rs:30 `Reader::by_name` — see `ZipV`.
    #[verifier::external_body]
    pub fn by_name(&mut self, name: &str) -> (r: ZipResult<Option<Vec<u8>>>)
        ensures
            final(self)@ == old(self)@,
            r is Err <==> old(self)@.unreadable.contains(name@),
            r matches Ok(o) ==> (o is Some <==> old(self)@.entries.contains_key(name@)),
            r matches Ok(Some(b)) ==> b@ == old(self)@.entries[name@],
    { unimplemented!() }

}

/// tokio::io::BufReader<R> (tokio-1.x src/io/util/buf_reader.rs): a wrapper; only constructed here
#[verifier::external_body]
#[verifier::reject_recursive_types(R)]
pub struct BufReader<R> { _r: core::marker::PhantomData<R> }
impl<R> BufReader<R> {
    pub uninterp spec fn inner_spec(&self) -> R;
    #[verifier::external_body]
    pub fn new(inner: R) -> (r: BufReader<R>)
        ensures r.inner_spec() == inner,
    { unimplemented!() }
}
/// an open file read from the start presents the content it had when it was opened
impl ArchiveSource for BufReader<File> {
    open spec fn content(&self) -> Seq<u8> { self.inner_spec()@.snap }
}

// ---- comparisons (Sha256::digest one-shot: prelude/files_hash.rs) ------------------------
/// R12: `$a != $b` for `$a, $b: Vec<u8>` (alloc::vec PartialEq: element-wise on the slices).
#[verifier::external_body]
pub fn vec_u8_ne(a: &Vec<u8>, b: &Vec<u8>) -> (r: bool)
    ensures r == (a@ != b@),
{ a != b }
/// R12: `$a == $b` for `$a, $b: Vec<u8>`.
#[verifier::external_body]
pub fn vec_u8_eq(a: &Vec<u8>, b: &Vec<u8>) -> (r: bool)
    ensures r == (a@ == b@),
{ a == b }

/// R12: `$s.to_string()` for `$s: &str` (alloc `impl ToString for str`): the same characters
#[verifier::external_body]
pub fn str_to_string(s: &str) -> (r: String)
    ensures r@ == s@,
{ s.to_string() }

// ---- sos_vault: summary of a vault buffer, whole-vault decoding ----------------------------
/// sos_vault::Error / sos_core::Error (opaque)
#[derive(Debug)]
pub struct VaultError { pub _p: () }
pub type VaultResult<T> = core::result::Result<T, VaultError>;
#[derive(Debug)]
pub struct CoreError { pub _p: () }
pub type CoreResult<T> = core::result::Result<T, CoreError>;

/// sos_vault::Summary (crates/vault/src/vault.rs; codec under contract in unit vaultcodec): opaque here
#[verifier::external_body]
pub struct Summary { _p: () }
/// the summary that `Header::read_summary_slice` decodes from the head of a
/// vault buffer (identity bytes, header length, `Summary::decode`): an
/// uninterpreted partial function of the bytes
pub uninterp spec fn summary_of(b: Seq<u8>) -> Option<Summary>;
pub struct Header { pub _p: () }
impl Header {
    /// crates/vault/src/vault.rs:440 `Header::read_summary_slice` (a pure
    /// function of the buffer: Cursor + BinaryReader over the slice)
    #[verifier::external_body]
    pub fn read_summary_slice(buffer: &[u8]) -> (r: VaultResult<Summary>)
        ensures
            r is Ok <==> summary_of(buffer@) is Some,
            r is Ok ==> r->Ok_0 == summary_of(buffer@)->Some_0,
    { unimplemented!() }
}

// ---- std::collections::HashMap iteration ------------------------------------------------
/// `s` lists every entry of `m` exactly once (in some order)
pub open spec fn hmap_entries<'a, K, V>(m: Map<K, V>, s: Seq<(&'a K, &'a V)>) -> bool {
    &&& forall|i: int| 0 <= i < s.len() ==> m.contains_key(*(#[trigger] s[i]).0) && m[*s[i].0] == *s[i].1
    &&& forall|i: int, j: int| 0 <= i < s.len() && 0 <= j < s.len() && i != j ==> *(#[trigger] s[i]).0 != *(#[trigger] s[j]).0
    &&& forall|k: K| m.contains_key(k) ==> exists|i: int| 0 <= i < s.len() && *(#[trigger] s[i]).0 == k
}
/// std::collections::hash_map::Iter<'a, K, V> (library/std/src/collections/hash/map.rs,
/// hashbrown RawIter): "An iterator visiting all key-value pairs in arbitrary order" —
/// every entry once, in an unspecified order.
#[verifier::external_body]
#[verifier::reject_recursive_types(K)]
#[verifier::reject_recursive_types(V)]
pub struct HMapIter<'a, K, V> { _p: core::marker::PhantomData<&'a (K, V)> }
impl<'a, K, V> HMapIter<'a, K, V> {
    /// entries not yet yielded
    pub uninterp spec fn rest(&self) -> Seq<(&'a K, &'a V)>;
}
impl<'a, K, V> Iterator for HMapIter<'a, K, V> {
    type Item = (&'a K, &'a V);
    /// contract inherited from vstd's Iterator specification (`IteratorSpecImpl`
    /// below): yields `rest()[0]` and drops it, `None` when `rest()` is empty
    #[verifier::external_body]
    fn next(&mut self) -> (r: Option<(&'a K, &'a V)>)
    { unimplemented!() }
}
impl<'a, K, V> vstd::std_specs::iter::IteratorSpecImpl for HMapIter<'a, K, V> {
    open spec fn obeys_prophetic_iter_laws(&self) -> bool { true }
    #[verifier::prophetic]
    open spec fn remaining(&self) -> Seq<(&'a K, &'a V)> { self.rest() }
    #[verifier::prophetic]
    open spec fn will_return_none(&self) -> bool { true }
    open spec fn decrease(&self) -> Option<nat> { Some(self.rest().len()) }
    open spec fn peek(&self, i: int) -> Option<(&'a K, &'a V)> {
        if 0 <= i < self.rest().len() { Some(self.rest()[i]) } else { None }
    }
}
/// R18: `for (k, v) in &$map` = `(&$map).into_iter()` = `$map.iter()` (std: `impl IntoIterator for &HashMap`)
#[verifier::external_body]
pub fn hmap_iter<'a, K, V>(m: &'a std::collections::HashMap<K, V>) -> (r: HMapIter<'a, K, V>)
    ensures hmap_entries(m@, r.rest()),
{ unimplemented!() }

// ---- sos_core::decode / sos_vault::Vault / sos_core::Paths --------------------------------
/// sos_vault::Vault (crates/vault/src/vault.rs:544; codec under contract in unit vaultcodec): opaque here
#[verifier::external_body]
pub struct Vault { _p: () }
/// the value `sos_core::decode::<T>` yields for a buffer: an uninterpreted
/// partial function of the bytes (the codecs are under contract in the units
/// codec / vaultcodec)
pub trait DecodeBytes: Sized {
    spec fn decoded(b: Seq<u8>) -> Option<Self>;
}
impl DecodeBytes for Vault {
    uninterp spec fn decoded(b: Seq<u8>) -> Option<Vault>;
}
/// crates/core/src/encoding/mod.rs:41 `decode::<T>(buffer: &[u8])`
/// (binary_stream::futures::decode over a Cursor: a pure function of the buffer)
#[verifier::external_body]
pub fn decode<T: DecodeBytes>(buffer: &[u8]) -> (r: CoreResult<T>)
    ensures
        r is Ok <==> T::decoded(buffer@) is Some,
        r is Ok ==> Some(r->Ok_0) == T::decoded(buffer@),
{ unimplemented!() }

// ---- the exporter side: zip writer, path text ----------------------------------------------
/// sos_archive::ZipWriter (crates/archive/src/writer.rs, read): `add_file(path, content)`
/// = `ZipFileWriter::write_entry_whole` with a Deflate entry named `path`.  View: the entries
/// written so far, in order (name, uncompressed content).
#[verifier::external_body]
#[verifier::reject_recursive_types(W)]
pub struct ZipWriter<W> { _w: core::marker::PhantomData<W> }
impl<W> View for ZipWriter<W> {
    type V = Seq<(Seq<char>, Seq<u8>)>;
    uninterp spec fn view(&self) -> Seq<(Seq<char>, Seq<u8>)>;
}
impl<W> ZipWriter<W> {
    #[verifier::external_body]
    pub fn add_file(&mut self, path: &str, content: &[u8]) -> (r: ZipResult<()>)
        ensures r is Ok ==> final(self)@ == old(self)@.push((path@, content@)),
    { unimplemented!() }
}
/// std::io::Cursor<T>: appears in a type position only
#[verifier::external_body]
#[verifier::reject_recursive_types(T)]
pub struct Cursor<T> { _t: core::marker::PhantomData<T> }

/// Assumption ZIP-RT: an archive read back presents, under each name, the
/// content of the first entry written with that name (async_zip Deflate
/// round trip; `by_name` returns at the first match).
pub open spec fn zip_written(w: Seq<(Seq<char>, Seq<u8>)>) -> Map<Seq<char>, Seq<u8>>
    decreases w.len(),
{
    if w.len() == 0 { Map::empty() } else {
        let m = zip_written(w.drop_last());
        if m.contains_key(w.last().0) { m } else { m.insert(w.last().0, w.last().1) }
    }
}

/// R12: `PathBuf::from($s)` for `$s: String` (std `impl From<String> for PathBuf`): the same text
#[verifier::external_body]
pub fn pathbuf_from_string(s: String) -> (r: PathBuf)
    ensures r@ == s@,
{ unimplemented!() }
/// R12: `$p.to_string_lossy().as_ref()` (std `Path::to_string_lossy`): the path text (lossless
/// for a path built from a `String`)
#[verifier::external_body]
pub fn path_text(p: &PathBuf) -> (r: String)
    ensures r@ == p@,
{ unimplemented!() }

/// R12: `$m.insert($k, $v)` on std::collections::HashMap (library/std/src/collections/hash/map.rs `insert`)
#[verifier::external_body]
pub fn hmap_insert<K, V>(m: &mut std::collections::HashMap<K, V>, k: K, v: V) -> (r: Option<V>)
    ensures final(m)@ == old(m)@.insert(k, v),
{ unimplemented!() }

/// `Display` text of an identifier (`AccountId`: "0x" + hex of the 20 bytes, crates/core/src/account.rs:25;
/// `Uuid`: hyphenated lower-case hex, uuid-1.x fmt.rs): uninterpreted
pub trait ToStringSpec {
    spec fn display(&self) -> Seq<char>;
    fn to_string(&self) -> (r: String)
        ensures r@ == self.display();
}
impl ToStringSpec for Uuid {
    uninterp spec fn display(&self) -> Seq<char>;
    #[verifier::external_body]
    fn to_string(&self) -> (r: String) { unimplemented!() }
}
/// R12: `PathBuf::from($s)` for `$s: &str` (std `impl<T: ?Sized + AsRef<OsStr>> From<&T> for PathBuf`): the same text
#[verifier::external_body]
pub fn pathbuf_from_str(s: &str) -> (r: PathBuf)
    ensures r@ == s@,
{ unimplemented!() }

// ---- restoring: further argument shapes of the file-system stand-ins -------------------------------
impl AsRefPath for &PathBuf {
    open spec fn pv(&self) -> Seq<char> { (*self)@ }
    #[verifier::external_body]
    fn as_ref(&self) -> (r: &Path) { unimplemented!() }
}
impl AsRefBytes for &Vec<u8> {
    open spec fn bv(&self) -> Seq<u8> { (*self)@ }
    #[verifier::external_body]
    fn as_ref(&self) -> (r: &[u8]) { unimplemented!() }
}
impl PathLike for &&PathBuf { open spec fn pv(&self) -> Seq<char> { (**self)@ } }

/// R20: `vfs::write(path, contents)` = tokio::fs::write (tokio-1.x src/fs/write.rs → std::fs::write:
/// create or truncate, then write the whole buffer).  Ok: the file holds exactly the buffer; Err: only
/// that path may have changed.
#[verifier::external_body]
pub fn vfs_write<P: PathLike, B: BytesLike>(fs: &mut Fs, path: P, contents: B) -> (r: Result<()>)
    ensures
        files_same_except(old(fs)@, final(fs)@, path.pv()),
        final(fs)@.dirs == old(fs)@.dirs,
        r is Ok ==> final(fs)@.files.contains_key(path.pv()) && final(fs)@.files[path.pv()] == contents.bytes(),
{ unimplemented!() }

/// R20: `vfs::create_dir_all(path)` = tokio::fs::create_dir_all (tokio-1.x src/fs/create_dir_all.rs →
/// std::fs::DirBuilder::new().recursive(true).create: "Recursively create a directory and all of its
/// parent components if they are missing").  Creates directories only; Ok: `path` is a directory.
/// (Same as `vfs::create_dir_all` of prelude/files_fs.rs plus the Ok clause.)
#[verifier::external_body]
pub fn vfs_create_dir_all<P: PathLike>(fs: &mut Fs, path: P) -> (r: Result<()>)
    ensures
        final(fs)@.files == old(fs)@.files,
        old(fs)@.dirs.subset_of(final(fs)@.dirs),
        r is Ok ==> final(fs)@.dirs.contains(path.pv()),
{ unimplemented!() }

/// R12: `$a == $b` for `$a, $b: &str` (core::str PartialEq: same characters)
#[verifier::external_body]
pub fn str_eq(a: &str, b: &str) -> (r: bool)
    ensures r == (a@ == b@),
{ a == b }

/// R12: `$v.iter().find(|x| $body)` on a Vec (core::slice::Iter + Iterator::find): the first element
/// for which the closure returns true
pub fn vec_iter_find<'a, T, F: Fn(&T) -> bool>(v: &'a Vec<T>, f: F) -> (r: Option<&'a T>)
    requires forall|x: &T| call_requires(f, (x,)),
    ensures
        r matches Some(x) ==> exists|i: int| 0 <= i < v@.len() && *x == #[trigger] v@[i] && call_ensures(f, (&v@[i],), true),
        r is None ==> forall|i: int| 0 <= i < v@.len() ==> call_ensures(f, (&#[trigger] v@[i],), false),
{
    let mut i: usize = 0;
    while i < v.len()
        invariant
            i <= v@.len(),
            forall|x: &T| call_requires(f, (x,)),
            forall|j: int| 0 <= j < i ==> call_ensures(f, (&#[trigger] v@[j],), false),
        decreases v@.len() - i,
    {
        if f(&v[i]) { return Some(&v[i]); }
        i += 1;
    }
    None
}

/// R12: `$a == $b` on two references of the same type whose `PartialEq` is structural (derived on
/// `AccountId([u8; 20])`, crates/core/src/account.rs:10; core::str): equal bytes / equal characters
pub trait EqStd: Sized {
    spec fn eq_std_spec(self, other: Self) -> bool;
}
impl EqStd for &str { open spec fn eq_std_spec(self, other: &str) -> bool { self@ == other@ } }
#[verifier::external_body]
pub fn eq_std<T: EqStd + PartialEq>(a: T, b: T) -> (r: bool)
    ensures r == a.eq_std_spec(b),
{ a == b }
