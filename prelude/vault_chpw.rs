// ===========================================================================
// prelude/vault_chpw.rs — unit `vaultmem`, ChangePassword: the two callees
// that are not under contract.  Included at top level (inside `mod cpre2`).
// Everything `external_body` here is an ASSUMPTION.
// ===========================================================================

impl Vault {
    /// vault.rs:602 `asymmetric`: initialises a vault for age/x25519 (owner
    /// added to the recipients, SHARED flag, cipher := X25519, shared access
    /// list, a generated salt as "initialised" marker).  NOT under contract: the
    /// body is iterator chains over age recipients (`iter().any(..)`,
    /// `into_iter().map(..).collect()`).  Nothing is promised except that the
    /// draw counter does not go back and the secrets are untouched.
    #[verifier::external_body]
    pub fn asymmetric(&mut self, owner: &Identity, recipients: Vec<Recipient>, read_only: bool, Tracked(rng): Tracked<&mut Rng>) -> (r: VResult<PrivateKey>)
        ensures
            final(rng).count >= old(rng).count,
            final(self)@.secrets == old(self)@.secrets,
            r is Ok ==> final(self)@.head.summary.cipher == Cipher::X25519 && r->Ok_0@ is Asym,
    { unimplemented!() }
}

/// the iterator `Vault::iter` returns (`indexmap::map::Iter<'a, Uuid, VaultCommit>`
/// behind `impl Iterator<Item = (&Uuid, &VaultCommit)>`): entries in map order
#[verifier::external_body]
pub struct VaultIter<'a> { _p: core::marker::PhantomData<&'a Vault> }
impl<'a> VaultIter<'a> {
    /// entries not yet yielded
    pub uninterp spec fn rest(&self) -> Seq<(&'a Uuid, &'a VaultCommit)>;
}
impl<'a> Iterator for VaultIter<'a> {
    type Item = (&'a Uuid, &'a VaultCommit);
    /// contract inherited from vstd's Iterator specification (`IteratorSpec`):
    /// yields `rest()[0]` and drops it, `None` when `rest()` is empty
    #[verifier::external_body]
    fn next(&mut self) -> (r: Option<(&'a Uuid, &'a VaultCommit)>)
    { unimplemented!() }
}
impl<'a> vstd::std_specs::iter::IteratorSpecImpl for VaultIter<'a> {
    open spec fn obeys_prophetic_iter_laws(&self) -> bool { true }
    #[verifier::prophetic]
    open spec fn remaining(&self) -> Seq<(&'a Uuid, &'a VaultCommit)> { self.rest() }
    #[verifier::prophetic]
    open spec fn will_return_none(&self) -> bool { true }
    open spec fn decrease(&self) -> Option<nat> { Some(self.rest().len()) }
    open spec fn peek(&self, i: int) -> Option<(&'a Uuid, &'a VaultCommit)> {
        if 0 <= i < self.rest().len() { Some(self.rest()[i]) } else { None }
    }
}
pub open spec fn refs_view(s: Seq<(&Uuid, &VaultCommit)>) -> Seq<(Seq<u8>, VaultCommitV)> {
    Seq::new(s.len(), |i: int| (s[i].0.0@, s[i].1@))
}
impl Vault {
    /// vault.rs:800 `iter`: `self.contents.data.iter()` (indexmap-2.12.0
    /// src/map/iter.rs `Iter`: every entry once, in order, as references)
    #[verifier::external_body]
    pub fn iter(&self) -> (r: VaultIter<'_>)
        ensures refs_view(r.rest()) == self@.secrets,
    { unimplemented!() }
}
