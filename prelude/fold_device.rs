// ===========================================================================
// prelude/fold_device.rs — R12 helper for DeviceReducer::reduce (depends on the
// extracted TrustedDevice / DevicePublicKey).  ASSUMPTION: std meaning of
// `Iterator::find` + `Option::cloned` over `IndexSet::iter` (entry order).
// ===========================================================================

/// R12: `$set.iter().find(|d| d.public_key() == &$key).cloned()` — the first
/// element, in set order, whose public key equals `$key` (DevicePublicKey:
/// derived PartialEq on its 32 bytes), cloned (derived Clone: same value);
/// None when there is none.
#[verifier::external_body]
pub fn vfind_device(devices: &IndexSet<TrustedDevice>, public_key: &DevicePublicKey) -> (r: Option<TrustedDevice>)
    ensures
        r is Some <==> s_has::<TrustedDevice>(devices@, public_key.bytes()),
        r is Some ==> exists|i: int| 0 <= i < devices@.len() && #[trigger] devices@[i] == r->Some_0
            && devices@[i].pk().bytes() == public_key.bytes()
            && (forall|j: int| 0 <= j < i ==> (#[trigger] devices@[j]).pk().bytes() != public_key.bytes()),
{ unimplemented!() }
