// ===========================================================================
// prelude/fold_device.rs — R12 helper for DeviceReducer::reduce (depends on the
// extracted TrustedDevice / DevicePublicKey).  ASSUMPTION: std meaning of
// `Iterator::find` + `Option::cloned` over `IndexSet::iter` (entry order).
// ===========================================================================

/// `#[derive(PartialEq, Eq)]` on `pub struct DevicePublicKey([u8; SIZE])`
/// (crates/core/src/device.rs:30): equality of the 32 bytes.  R6 drops the
/// derive; this is its std meaning (needed now that the `find` closure of
/// DeviceReducer::reduce is verified code).
impl vstd::std_specs::cmp::PartialEqSpecImpl for DevicePublicKey {
    open spec fn obeys_eq_spec() -> bool { true }
    open spec fn eq_spec(&self, other: &DevicePublicKey) -> bool { self.bytes() == other.bytes() }
}
impl PartialEq for DevicePublicKey {
    #[verifier::external_body]
    fn eq(&self, other: &DevicePublicKey) -> bool { self.0 == other.0 }
}

/// R12: `$set.iter().find($p).cloned()` with the predicate `$p` kept as extracted
/// code (this contract only quantifies over ITS post-condition).  std meaning of
/// `Iterator::find` over `indexmap::set::Iter` (entry order): the first element
/// on which `$p` answers true (and `$p` answered false on every earlier one),
/// cloned (derived Clone: same value); None iff `$p` answered false on all.
#[verifier::external_body]
pub fn vfind_device_by<F: Fn(&&TrustedDevice) -> bool>(devices: &IndexSet<TrustedDevice>, f: F) -> (r: Option<TrustedDevice>)
    requires
        forall|d: &&TrustedDevice| #[trigger] f.requires((d,)),
    ensures
        r is Some ==> exists|i: int| 0 <= i < devices@.len() && #[trigger] devices@[i] == r->Some_0
            && f.ensures((&&devices@[i],), true)
            && (forall|j: int| 0 <= j < i ==> f.ensures((&&#[trigger] devices@[j],), false)),
        r is None ==> (forall|j: int| 0 <= j < devices@.len() ==> f.ensures((&&#[trigger] devices@[j],), false)),
{ unimplemented!() }

