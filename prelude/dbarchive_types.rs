// ===========================================================================
// prelude/dbarchive_types.rs — stand-ins of unit `dbarchive` for everything the
// database backup-archive importer (crates/database/src/archive/import.rs
// `BackupImport::{import_account, read_import_data_source, write_import_data_source}`)
// calls but that lives outside the unit.  Every `external_body` below is an
// ASSUMPTION (trusted base); each names the source that was read.  Included inside
// `mod dba` after the extracted row structs (`EventRecordRow`, `SecretRow`,
// `FolderRow`, `AccountRow`; their ghost views are defined next to them in the unit),
// prelude/upgrade_spec.rs and prelude/dbarchive_spec.rs.
//
// PINNED SQL.  No verifier here interprets SQL.  The contracts of the entity
// functions are READ OFF THE SQL TEXT the functions build with `sql_query_builder`
// (quoted next to each contract) and the table definitions of
// crates/database/sql_migrations/V1__base.sql; they are stated over the ghost
// relation `UDbV` (prelude/upgrade_spec.rs).  Every such function is named by a
// `//@pin` line of units/dbarchive.vrs: if its text changes, the unit answers
// UNDECIDED.  The WRITE side (AccountEntity::{insert, insert_login_folder,
// insert_device_folder}, FolderEntity::{insert_folder, insert_folder_secrets},
// EventEntity::insert_*_events, the preference / server / system message inserts) are
// the contracts of prelude/upgrade_types.rs (same SQL, same pins), restated here with
// the argument types of THIS call site (`&Vec<_>`).  The READ side is new.
// ===========================================================================

/// async_sqlite::rusqlite::Error (rusqlite 0.37.0) — opaque
#[derive(Debug)]
pub struct SqlError { pub _p: () }
/// uuid::Error (uuid-1.18.1) — opaque
#[derive(Debug)]
pub struct UuidError { pub _p: () }

// ---- connection / transaction (as prelude/upgrade_types.rs) -----------------------------------------------
/// rusqlite::Connection (0.37.0).  Ghost state: the committed content of the database.  `BackupImport` OWNS both
/// connections (`source_db`, `target_db`: fields), so no connection needs to be threaded.
#[verifier::external_body]
pub struct Connection { _p: () }
impl View for Connection {
    type V = UDbV;
    uninterp spec fn view(&self) -> UDbV;
}
/// rusqlite::Transaction (0.37.0 src/transaction.rs): statements run through the transaction see and change its
/// working state `cur()`; `commit` makes the working state the connection's state; dropping the value without
/// `commit` rolls back.  R19: the stand-in does not borrow the connection; the functions that write are handed
/// `&mut Transaction` (rusqlite writes through `&Transaction`; the ghost state needs `&mut`).
#[verifier::external_body]
pub struct Transaction<'conn> { _p: core::marker::PhantomData<&'conn ()> }
impl<'conn> Transaction<'conn> {
    pub uninterp spec fn cur(&self) -> UDbV;
    /// `Transaction::commit` (COMMIT).  On failure the transaction is dropped: rollback.
    #[verifier::external_body]
    pub fn commit(self, conn: &mut Connection) -> (r: core::result::Result<(), SqlError>)
        ensures
            r is Ok ==> final(conn)@ == self.cur(),
            r is Err ==> final(conn)@ == old(conn)@,
    { unimplemented!() }
}
impl Connection {
    /// `Connection::transaction(&mut self)`
    #[verifier::external_body]
    pub fn transaction<'conn>(&mut self) -> (r: core::result::Result<Transaction<'conn>, SqlError>)
        ensures
            final(self)@ == old(self)@,
            r matches Ok(tx) ==> tx.cur() == old(self)@,
    { unimplemented!() }
}

// ---- what the SELECTs of the read side mean ---------------------------------------------------------------------
/// the folder `f` of account `aid` is registered in a join table (account_login_folder / account_device_folder)
pub open spec fn joined(db: UDbV, j: Seq<(int, int)>, aid: int, f: Seq<char>) -> bool {
    db.fold.folders.contains_key(f) && db.fold.folders[f].account_id == aid && j.contains((aid, db.fold.folders[f].row_id))
}
pub open spec fn is_login_folder(db: UDbV, aid: int, f: Seq<char>) -> bool { joined(db, db.login, aid, f) }
pub open spec fn is_device_folder(db: UDbV, aid: int, f: Seq<char>) -> bool { joined(db, db.device, aid, f) }
/// some row of the join table names the folder id (whatever account)
pub open spec fn in_join(j: Seq<(int, int)>, rid: int) -> bool { exists|i: int| 0 <= i < j.len() && (#[trigger] j[i]).1 == rid }
/// "folders.account_id=?1 AND login.folder_id IS NULL AND device.folder_id IS NULL"
pub open spec fn is_user_folder(db: UDbV, aid: int, f: Seq<char>) -> bool {
    db.fold.folders.contains_key(f) && db.fold.folders[f].account_id == aid
    && !in_join(db.login, db.fold.folders[f].row_id) && !in_join(db.device, db.fold.folders[f].row_id)
}

// ---- AccountEntity: PINNED SQL ------------------------------------------------------------------------------
/// sos_core::AccountId (crates/core/src/account.rs:14): 20 bytes; `Display` = "0x" + 40 hex digits
#[verifier::external_body]
#[derive(Clone, Copy)]
pub struct AccountId { _p: () }
pub uninterp spec fn account_text(a: AccountId) -> Seq<char>;
/// sos_core::PublicIdentity (crates/core/src/identity.rs:12): account id + label
#[verifier::external_body]
pub struct PublicIdentity { _p: () }
impl PublicIdentity {
    pub uninterp spec fn id_v(&self) -> AccountId;
    /// identity.rs:27
    #[verifier::external_body]
    pub fn account_id(&self) -> (r: &AccountId) ensures *r == self.id_v() { unimplemented!() }
}
/// crates/database/src/entity/account.rs:62 `AccountRecord`: the field the importer reads
pub struct AccountRecord { pub row_id: i64, pub identity: PublicIdentity }

/// crates/database/src/entity/account.rs:259 `AccountEntity<'conn, C>`.  R19: the stand-in does not keep the borrow;
/// every function is handed the handle it reads (`&Connection`) or writes (`&mut Transaction`) as FIRST argument.
pub struct AccountEntity { pub _p: () }
impl AccountEntity {
    /// account.rs:264 `new`: stores the reference
    pub fn new<C>(conn: &C) -> (r: AccountEntity) { AccountEntity { _p: () } }
    /// PINNED SQL (account.rs:294 `find_optional` -> :268 `account_select_columns`):
    ///   "SELECT account_id, created_at, modified_at, identifier, name FROM accounts WHERE identifier = ?1"
    ///   bound: [account_id.to_string()]; `.optional()`; the row -> `AccountRow` (:47 `TryFrom<&Row>`, column k -> k-th field).
    /// `accounts.identifier` is UNIQUE (V1__base.sql): at most one row.
    #[verifier::external_body]
    pub fn find_optional(&self, db: &Connection, account_id: &AccountId) -> (r: StdResult<Option<AccountRow>, SqlError>)
        ensures
            r matches Ok(Some(row)) ==> exists|i: int| 0 <= i < db@.accounts.len() && #[trigger] row.is_row(db@.accounts[i]) && db@.accounts[i].identifier == account_text(*account_id),
            r matches Ok(None) ==> forall|i: int| 0 <= i < db@.accounts.len() ==> (#[trigger] db@.accounts[i]).identifier != account_text(*account_id),
    { unimplemented!() }
    /// PINNED SQL (account.rs:328 `insert`):
    ///   "INSERT INTO accounts (created_at, modified_at, identifier, name) VALUES (?1, ?2, ?3, ?4)"
    ///   bound: the four fields of `row`; `Ok(last_insert_rowid())`.  `account_id INTEGER PRIMARY KEY` is the rowid
    /// alias: the new row gets an id no row of the table has.  A failed statement changes nothing.
    #[verifier::external_body]
    pub fn insert(&self, tx: &mut Transaction, row: &AccountRow) -> (r: StdResult<i64, SqlError>)
        ensures
            r matches Ok(id) ==> account_rid_fresh(old(tx).cur().accounts, id as int)
                && final(tx).cur() == st_account(old(tx).cur(), id as int, row.ident(), row.label()),
            r is Err ==> final(tx).cur() == old(tx).cur(),
    { unimplemented!() }
    /// PINNED SQL (account.rs:350 `insert_login_folder`):
    ///   "INSERT INTO account_login_folder (account_id, folder_id) VALUES (?1, ?2)"     bound: [account_id, folder_id]
    #[verifier::external_body]
    pub fn insert_login_folder(&self, tx: &mut Transaction, account_id: i64, folder_id: i64) -> (r: StdResult<i64, SqlError>)
        ensures
            r is Ok ==> final(tx).cur() == (UDbV { login: old(tx).cur().login.push((account_id as int, folder_id as int)), ..old(tx).cur() }),
            r is Err ==> final(tx).cur() == old(tx).cur(),
    { unimplemented!() }
    /// PINNED SQL (account.rs:379 `insert_device_folder`):
    ///   "INSERT INTO account_device_folder (account_id, folder_id) VALUES (?1, ?2)"    bound: [account_id, folder_id]
    #[verifier::external_body]
    pub fn insert_device_folder(&self, tx: &mut Transaction, account_id: i64, folder_id: i64) -> (r: StdResult<i64, SqlError>)
        ensures
            r is Ok ==> final(tx).cur() == (UDbV { device: old(tx).cur().device.push((account_id as int, folder_id as int)), ..old(tx).cur() }),
            r is Err ==> final(tx).cur() == old(tx).cur(),
    { unimplemented!() }
}

// ---- EventEntity: PINNED SQL ----------------------------------------------------------------------------------
/// crates/database/src/entity/event.rs:162 `EventEntity<'conn, C>`.  R19 as for the other entities.
pub struct EventEntity { pub _p: () }
pub open spec fn rowvs(s: Seq<EventRecordRow>) -> Seq<RowV> { Seq::new(s.len(), |i: int| s[i].rowv()) }
impl EventEntity {
    /// event.rs:193 `new`: stores the reference
    pub fn new<C>(conn: &C) -> (r: EventEntity) { EventEntity { _p: () } }

    /// PINNED SQL (event.rs:282 `load_events` -> `event_select_columns`, `impl TryFrom<&Row> for EventRecordRow`):
    ///   `let id = folder_id.unwrap_or(account_id);`
    ///   "SELECT event_id, created_at, commit_hash, event FROM <table> WHERE <id_column>=?1 ORDER BY event_id ASC"   bound: [id]
    /// <table> / <id_column> = `EventTable::from(log_type)` .as_str() / .id_column() (`tbl_of`, prelude/dblog_spec.rs):
    /// one `EventRecordRow` per row, in that order, with the stored created_at / commit_hash / event.
    #[verifier::external_body]
    pub fn load_events(&self, db: &Connection, log_type: EventLogType, account_id: i64, folder_id: Option<i64>) -> (r: DbResult<Vec<EventRecordRow>>)
        ensures r matches Ok(v) ==> rowvs(v@) == rowvals(own(db@.ev, tbl_of(log_type), (match folder_id { Some(f) => f, None => account_id }) as int)),
    { unimplemented!() }

    // PINNED SQL (event.rs:227 `insert_events` + :356 `create_events`):
    //   "INSERT INTO <table> (<id_column>, created_at, commit_hash, event) VALUES (?1, ?2, ?3, ?4)"
    // executed once per element of `events`, in order, bound: (id, created_at, commit_hash, event_bytes); the new rows
    // follow all present rows in `ORDER BY event_id ASC`.  event.rs:246 / :255 / :264 / :274:
    // `self.insert_events(<fixed log type>, id, events)` with EventLogType::Account / ::Identity (folder_events) /
    // ::Device (device_events.account_id) / ::Files.
    #[verifier::external_body]
    pub fn insert_account_events(&self, tx: &mut Transaction, account_id: i64, events: &Vec<EventRecordRow>) -> (r: core::result::Result<Vec<i64>, SqlError>)
        ensures r is Ok ==> final(tx).cur() == ins_ev(old(tx).cur(), Tbl::AccountEvents, account_id as int, rowvs(events@)),
    { unimplemented!() }
    #[verifier::external_body]
    pub fn insert_folder_events(&self, tx: &mut Transaction, folder_id: i64, events: &Vec<EventRecordRow>) -> (r: core::result::Result<Vec<i64>, SqlError>)
        ensures r is Ok ==> final(tx).cur() == ins_ev(old(tx).cur(), Tbl::FolderEvents, folder_id as int, rowvs(events@)),
    { unimplemented!() }
    #[verifier::external_body]
    pub fn insert_device_events(&self, tx: &mut Transaction, account_id: i64, events: &Vec<EventRecordRow>) -> (r: core::result::Result<Vec<i64>, SqlError>)
        ensures r is Ok ==> final(tx).cur() == ins_ev(old(tx).cur(), Tbl::DeviceEvents, account_id as int, rowvs(events@)),
    { unimplemented!() }
    #[verifier::external_body]
    pub fn insert_file_events(&self, tx: &mut Transaction, account_id: i64, events: &Vec<EventRecordRow>) -> (r: core::result::Result<Vec<i64>, SqlError>)
        ensures r is Ok ==> final(tx).cur() == ins_ev(old(tx).cur(), Tbl::FileEvents, account_id as int, rowvs(events@)),
    { unimplemented!() }
}

// ---- FolderEntity: PINNED SQL -------------------------------------------------------------------------
/// `std::collections::HashMap<K, V>` — opaque here (the map `insert_folder_secrets` returns is dropped; `blobs` is
/// only handed to the blob extraction, which is not under contract)
#[verifier::external_body]
#[verifier::reject_recursive_types(K)]
#[verifier::reject_recursive_types(V)]
pub struct HashMap<K, V> { _p: core::marker::PhantomData<(K, V)> }
pub open spec fn colsv(rows: Seq<SecretRow>) -> Seq<SecretColsV> { Seq::new(rows.len(), |i: int| rows[i].cols()) }
/// crates/database/src/entity/folder.rs:326 `FolderEntity<'conn, C>`.  R19 as for the other entities.
pub struct FolderEntity { pub _p: () }
impl FolderEntity {
    /// entity/folder.rs:465 `new`: stores the reference
    pub fn new<C>(conn: &C) -> (r: FolderEntity) { FolderEntity { _p: () } }

    /// PINNED SQL (entity/folder.rs:517 `find_login_folder` -> :523 `find_login_folder_optional`, `.ok_or_else(NoLoginFolder)`):
    ///   "SELECT <12 columns of folder_select_columns> FROM folders
    ///    LEFT JOIN account_login_folder login ON folders.folder_id = login.folder_id
    ///    WHERE folders.account_id=?1 AND login.account_id=?1"          bound: [account_id]
    /// `query_row(..).optional()`: the first matching row -> `FolderRow` (:131 `TryFrom<&Row>`)
    #[verifier::external_body]
    pub fn find_login_folder(&self, db: &Connection, account_id: i64) -> (r: DbResult<FolderRow>)
        ensures r matches Ok(row) ==> is_login_folder(db@, account_id as int, row.cols().identifier)
            && row.is_row(db@.fold.folders[row.cols().identifier]),
    { unimplemented!() }
    /// PINNED SQL (entity/folder.rs:541 `find_device_folder`): the same with `account_device_folder device`,
    /// "WHERE folders.account_id=?1 AND device.account_id=?1"; `Ok(None)` when no row matches
    #[verifier::external_body]
    pub fn find_device_folder(&self, db: &Connection, account_id: i64) -> (r: StdResult<Option<FolderRow>, SqlError>)
        ensures
            r matches Ok(Some(row)) ==> is_device_folder(db@, account_id as int, row.cols().identifier)
                && row.is_row(db@.fold.folders[row.cols().identifier]),
            r matches Ok(None) ==> forall|f: Seq<char>| !is_device_folder(db@, account_id as int, f),
    { unimplemented!() }
    /// PINNED SQL (entity/folder.rs:561 `list_user_folders`):
    ///   "SELECT <12 columns> FROM folders
    ///    LEFT JOIN account_login_folder login ON folders.folder_id = login.folder_id
    ///    LEFT JOIN account_device_folder device ON folders.folder_id = device.folder_id
    ///    WHERE folders.account_id=?1 AND login.folder_id IS NULL AND device.folder_id IS NULL"     bound: [account_id]
    /// every matching row (no ORDER BY) -> `FolderRow`: every folder of the account that NO row of the two join tables
    /// names, each once (a folder without join partner gives one NULL-extended row)
    #[verifier::external_body]
    pub fn list_user_folders(&self, db: &Connection, account_id: i64) -> (r: DbResult<Vec<FolderRow>>)
        ensures r matches Ok(v) ==>
            (forall|i: int| 0 <= i < v@.len() ==> is_user_folder(db@, account_id as int, (#[trigger] v@[i]).cols().identifier)
                && v@[i].is_row(db@.fold.folders[v@[i].cols().identifier]))
            && (forall|f: Seq<char>| is_user_folder(db@, account_id as int, f) ==> exists|i: int| 0 <= i < v@.len() && (#[trigger] v@[i]).cols().identifier == f),
    { unimplemented!() }
    /// PINNED SQL (entity/folder.rs:840 `load_secrets` -> :37 `secret_select_columns`, :278 `TryFrom<&Row> for SecretRow`):
    ///   "SELECT secret_id, created_at, modified_at, identifier, commit_hash, meta, secret FROM folder_secrets WHERE folder_id=?1"
    ///   bound: [folder_row_id]; every matching row (no ORDER BY) -> `SecretRow` with the stored columns
    #[verifier::external_body]
    pub fn load_secrets(&self, db: &Connection, folder_row_id: i64) -> (r: DbResult<Vec<SecretRow>>)
        ensures r matches Ok(v) ==> rows_are_secrets(colsv(v@), db@.fold, folder_row_id as int),
    { unimplemented!() }

    /// PINNED SQL (entity/folder.rs:637 `insert_folder`):
    ///   "INSERT INTO folders (account_id, created_at, modified_at, identifier, name, salt, meta, seed,
    ///    version, cipher, kdf, flags) VALUES (?1, ?2, ?3, ?4, ?5, ?6, ?7, ?8, ?9, ?10, ?11, ?12)"
    ///   bound: (account_id, then the eleven fields of `folder_row` in that order); `Ok(last_insert_rowid())`.
    /// `folders.identifier` is UNIQUE (V1__base.sql:80): the statement fails when a row with that identifier
    /// exists.  `folder_id INTEGER PRIMARY KEY` (:74) is the rowid alias: SQLite gives the new row an id no row
    /// of the table has.  A failed statement changes nothing.
    #[verifier::external_body]
    pub fn insert_folder(&self, tx: &mut Transaction, account_id: i64, folder_row: &FolderRow) -> (r: StdResult<i64, SqlError>)
        ensures
            r matches Ok(id) ==> !old(tx).cur().fold.folders.contains_key(folder_row.cols().identifier)
                && rid_fresh(old(tx).cur().fold, id as int)
                && final(tx).cur() == sql_insert_folder(old(tx).cur(), account_id as int, id as int, folder_row.created(), folder_row.cols()),
            r is Err ==> final(tx).cur() == old(tx).cur(),
    { unimplemented!() }

    /// PINNED (entity/folder.rs:725 `insert_folder_secrets`): for every row of `rows`, in order,
    /// `secret_row.identifier.parse::<SecretId>()?` then `insert_secret_by_row_id(folder_id, secret_row)?` (:751):
    ///   "INSERT INTO folder_secrets (folder_id, identifier, commit_hash, meta, secret, created_at, modified_at)
    ///    VALUES (?1, ?2, ?3, ?4, ?5, ?6, ?7)
    ///    ON CONFLICT (identifier) DO UPDATE SET folder_id=excluded.folder_id, commit_hash=excluded.commit_hash,
    ///    meta=excluded.meta, secret=excluded.secret, modified_at=excluded.modified_at"
    /// (the upsert of prelude/dbvault_spec.rs `sql_upsert_secret`; `folder_secrets.identifier` is UNIQUE over the WHOLE
    /// table, V1__base.sql:126).  On `Err` some of the upserts may have run (the caller drops the transaction).
    #[verifier::external_body]
    pub fn insert_folder_secrets(&self, tx: &mut Transaction, folder_id: i64, rows: &Vec<SecretRow>) -> (r: DbResult<HashMap<SecretId, i64>>)
        ensures
            r is Ok ==> final(tx).cur() == (UDbV { fold: sql_upsert_all(old(tx).cur().fold, folder_id as int, colsv(rows@)), ..old(tx).cur() }),
    { unimplemented!() }
}

// ---- preferences / servers / system messages: opaque rows, frames only ----------------------------------------------
/// crates/database/src/entity/{preference,system_message,server}.rs row types — opaque
#[verifier::external_body]
pub struct PreferenceRow { _p: () }
#[verifier::external_body]
pub struct SystemMessageRow { _p: () }
#[verifier::external_body]
pub struct ServerRow { _p: () }
/// only the abstract component `fold.rest` (= every table other than the event tables, folders, folder_secrets and
/// the three account tables) may differ
pub open spec fn only_rest_differs(a: UDbV, b: UDbV) -> bool {
    b == (UDbV { fold: VDbV { rest: b.fold.rest, ..a.fold }, ..a })
}
/// preference.rs:134 `load_preferences` ("SELECT .. FROM preferences WHERE account_id=?1") / :196 `insert_preferences` ->
/// :162 "INSERT INTO preferences (account_id, created_at, modified_at, key, json_data) VALUES (?1 .. ?5)" per row (PINNED):
/// reads / writes the table `preferences` only
pub struct PreferenceEntity { pub _p: () }
impl PreferenceEntity {
    pub fn new<C>(conn: &C) -> (r: PreferenceEntity) { PreferenceEntity { _p: () } }
    #[verifier::external_body]
    pub fn load_preferences(&self, db: &Connection, account_id: Option<i64>) -> (r: DbResult<Vec<PreferenceRow>>) { unimplemented!() }
    #[verifier::external_body]
    pub fn insert_preferences(&self, tx: &mut Transaction, account_id: Option<i64>, rows: &Vec<PreferenceRow>) -> (r: StdResult<(), SqlError>)
        ensures only_rest_differs(old(tx).cur(), final(tx).cur()),
    { unimplemented!() }
}
/// system_message.rs:75 `load_system_messages` / :188 `insert_system_messages` -> :157 "INSERT INTO system_messages (account_id,
/// created_at, modified_at, key, json_data) VALUES (?1 .. ?5)" per row (PINNED): reads / writes the table `system_messages` only
pub struct SystemMessageEntity { pub _p: () }
impl SystemMessageEntity {
    pub fn new<C>(conn: &C) -> (r: SystemMessageEntity) { SystemMessageEntity { _p: () } }
    #[verifier::external_body]
    pub fn load_system_messages(&self, db: &Connection, account_id: i64) -> (r: DbResult<Vec<SystemMessageRow>>) { unimplemented!() }
    #[verifier::external_body]
    pub fn insert_system_messages(&self, tx: &mut Transaction, account_id: i64, rows: &Vec<SystemMessageRow>) -> (r: StdResult<(), SqlError>)
        ensures only_rest_differs(old(tx).cur(), final(tx).cur()),
    { unimplemented!() }
}
/// server.rs:116 `load_servers` / :169 `insert_servers` -> :146 "INSERT INTO servers (account_id, created_at, modified_at, name, url)
/// VALUES (?1 .. ?5)" per row (PINNED): reads / writes the table `servers` only
pub struct ServerEntity { pub _p: () }
impl ServerEntity {
    pub fn new<C>(conn: &C) -> (r: ServerEntity) { ServerEntity { _p: () } }
    #[verifier::external_body]
    pub fn load_servers(&self, db: &Connection, account_id: i64) -> (r: DbResult<Vec<ServerRow>>) { unimplemented!() }
    #[verifier::external_body]
    pub fn insert_servers(&self, tx: &mut Transaction, account_id: i64, rows: &Vec<ServerRow>) -> (r: StdResult<(), SqlError>)
        ensures only_rest_differs(old(tx).cur(), final(tx).cur()),
    { unimplemented!() }
}

// ---- the fields of `BackupImport` the importer of ONE account does not interpret ---------------------------------------
/// sos_core::Paths (crates/core/src/paths.rs) — opaque
#[verifier::external_body]
pub struct Paths { _p: () }
impl Paths {
    /// paths.rs `with_account_id`: the same locations for the account directory of `account_id`
    #[verifier::external_body]
    pub fn with_account_id(&self, account_id: &AccountId) -> (r: Paths) { unimplemented!() }
}
/// crates/database/src/archive/types.rs `ManifestVersion3` — opaque here (under contract in unit `archive`)
#[verifier::external_body]
pub struct ManifestVersion3 { _p: () }
/// tempfile::NamedTempFile — opaque (keeps the extracted database file alive)
#[verifier::external_body]
pub struct NamedTempFile { _p: () }
/// sos_core::ExternalFile — opaque
#[verifier::external_body]
pub struct ExternalFile { _p: () }
/// sos_archive::ZipReader<R>, tokio::io::BufReader<R>, sos_vfs::File — opaque
#[verifier::external_body]
#[verifier::reject_recursive_types(R)]
pub struct ZipReader<R> { _p: core::marker::PhantomData<R> }
#[verifier::external_body]
#[verifier::reject_recursive_types(R)]
pub struct BufReader<R> { _p: core::marker::PhantomData<R> }
pub mod vfs {
    #[verifier::external_body]
    pub struct File { _p: () }
}
/// R20: crates/database/src/archive/import.rs:158-180, the block `if let Some(files) = self.blobs.get(account_id) { for file in
/// files { .. zip_reader.by_name(..) .. vfs::create_dir_all .. vfs::write(..) } }` — NOT under contract (zip entries and the
/// file system; the archive side of attachments is unit `archive`).  It touches neither database.
#[verifier::external_body]
pub fn extract_account_blobs(blobs: &HashMap<AccountId, Vec<ExternalFile>>, zip_reader: &mut ZipReader<BufReader<vfs::File>>, account_paths: &Paths, account_id: &AccountId) -> (r: Result<()>)
{ unimplemented!() }

/// R18: `for (folder, secrets, events) in &data.user_folders` (`<&Vec<T> as IntoIterator>`: the references to the items, in order)
#[verifier::external_body]
pub fn viter_triples(v: &Vec<FolderTriple>) -> (r: Vec<&FolderTriple>)
    ensures r@.len() == v@.len(), forall|i: int| 0 <= i < v@.len() ==> *#[trigger] r@[i] == v@[i],
{ unimplemented!() }
