// ===========================================================================
// prelude/base.rs — assumed contracts on std / helper stand-ins (trusted base)
// Every `external_body`, `assume_specification`, `axiom` in the prelude is an
// ASSUMPTION and is enumerated in the evidence files.
// ===========================================================================

/// R4: every panic!/unreachable!/todo!/unimplemented! site becomes a call of
/// this function; its precondition `false` turns the site into a named
/// reachability obligation.
#[verifier::external_body]
pub fn vpanic() -> !
    requires false,
{
    panic!()
}

/// R4b: a panic site that the unit file declares as accepted behaviour (with
/// the reason); control does not continue, nothing is assumed about inputs.
#[verifier::external_body]
pub fn vabort() -> !
{
    panic!()
}

/// R3: `format!(..)` — message text only; no postcondition, so no proof can
/// depend on it.
#[verifier::external_body]
pub fn opaque_string() -> String {
    String::new()
}

// ---- io::Error --------------------------------------------------------
// std::io::Error is an opaque value; constructing one has no observable
// effect on the state contracts talk about.
#[verifier::external_body]
#[derive(Debug)]
pub struct Error { _p: () }

pub type Result<T> = core::result::Result<T, Error>;

impl Error {
    #[verifier::external_body]
    pub fn other<E>(_e: E) -> Error { Error { _p: () } }
}

/// `sos_core::encoding::encoding_error` (wraps any error into io::Error)
#[verifier::external_body]
pub fn encoding_error<E>(_e: E) -> Error { Error { _p: () } }

/// error payload of `<[u8] as TryInto<[u8;N]>>`
#[derive(Debug)]
pub struct TryFromSliceError { pub _p: () }

/// R12: `$s.as_slice().try_into()` with target `[u8; N]` — std meaning:
/// Ok iff the slice has exactly N elements, and then the array holds them.
#[verifier::external_body]
pub fn slice_to_array<const N: usize>(s: &[u8]) -> (r: core::result::Result<[u8; N], TryFromSliceError>)
    ensures
        r.is_ok() <==> s@.len() == N,
        r.is_ok() ==> r.unwrap()@ == s@,
{
    match <[u8; N]>::try_from(s) { Ok(a) => Ok(a), Err(_) => Err(TryFromSliceError { _p: () }) }
}

/// R12c: `Vec::with_capacity(n)`.  Same result as std; the precondition is the
/// C15 obligation [alloc_proportional]: a capacity taken from input must be
/// bounded (16 MiB, the codec's max_buffer_size).
pub fn vec_with_capacity_checked<T>(n: usize) -> (v: Vec<T>)
    requires n <= 16777216,
    ensures v@.len() == 0,
{
    Vec::with_capacity(n)
}

// ---- utf-8 --------------------------------------------------------------
pub uninterp spec fn utf8(s: Seq<char>) -> Seq<u8>;
pub uninterp spec fn utf8_dec(b: Seq<u8>) -> Option<Seq<char>>;

/// Assumption UTF8: String::from_utf8 / str::as_bytes are mutually inverse.
pub broadcast axiom fn axiom_utf8_roundtrip(s: Seq<char>)
    ensures #[trigger] utf8_dec(utf8(s)) == Some(s);

pub broadcast axiom fn axiom_utf8_dec_sound(b: Seq<u8>)
    ensures (#[trigger] utf8_dec(b)) matches Some(s) ==> utf8(s) == b;

// ---- little endian ------------------------------------------------------
pub open spec fn le16(x: u16) -> Seq<u8> {
    seq![(x & 0xff) as u8, ((x >> 8) & 0xff) as u8]
}
pub open spec fn le32(x: u32) -> Seq<u8> {
    seq![(x & 0xff) as u8, ((x >> 8) & 0xff) as u8, ((x >> 16) & 0xff) as u8, ((x >> 24) & 0xff) as u8]
}
pub open spec fn le64(x: u64) -> Seq<u8> {
    seq![(x & 0xff) as u8, ((x >> 8) & 0xff) as u8, ((x >> 16) & 0xff) as u8, ((x >> 24) & 0xff) as u8,
         ((x >> 32) & 0xff) as u8, ((x >> 40) & 0xff) as u8, ((x >> 48) & 0xff) as u8, ((x >> 56) & 0xff) as u8]
}
pub open spec fn de16(s: Seq<u8>) -> u16 {
    (s[0] as u16) | ((s[1] as u16) << 8)
}
pub open spec fn de32(s: Seq<u8>) -> u32 {
    (s[0] as u32) | ((s[1] as u32) << 8) | ((s[2] as u32) << 16) | ((s[3] as u32) << 24)
}
pub open spec fn de64(s: Seq<u8>) -> u64 {
    (s[0] as u64) | ((s[1] as u64) << 8) | ((s[2] as u64) << 16) | ((s[3] as u64) << 24)
    | ((s[4] as u64) << 32) | ((s[5] as u64) << 40) | ((s[6] as u64) << 48) | ((s[7] as u64) << 56)
}

pub proof fn lemma_le16(x: u16)
    ensures le16(x).len() == 2, de16(le16(x)) == x,
{
    assert((((x & 0xff) as u8) as u16) | ((((x >> 8) & 0xff) as u8 as u16) << 8) == x) by(bit_vector);
}
pub proof fn lemma_le32(x: u32)
    ensures le32(x).len() == 4, de32(le32(x)) == x,
{
    assert((((x & 0xff) as u8) as u32) | ((((x >> 8) & 0xff) as u8 as u32) << 8)
        | ((((x >> 16) & 0xff) as u8 as u32) << 16) | ((((x >> 24) & 0xff) as u8 as u32) << 24) == x) by(bit_vector);
}
pub proof fn lemma_le64(x: u64)
    ensures le64(x).len() == 8, de64(le64(x)) == x,
{
    assert((((x & 0xff) as u8) as u64) | ((((x >> 8) & 0xff) as u8 as u64) << 8)
        | ((((x >> 16) & 0xff) as u8 as u64) << 16) | ((((x >> 24) & 0xff) as u8 as u64) << 24)
        | ((((x >> 32) & 0xff) as u8 as u64) << 32) | ((((x >> 40) & 0xff) as u8 as u64) << 40)
        | ((((x >> 48) & 0xff) as u8 as u64) << 48) | ((((x >> 56) & 0xff) as u8 as u64) << 56) == x) by(bit_vector);
}
