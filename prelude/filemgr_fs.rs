// ===========================================================================
// prelude/filemgr_fs.rs — stand-ins of unit `filemgr` (crates/storage/client/src/files/
// file_manager.rs): paths, a GHOST FILE SYSTEM (same reading as prelude/files_fs.rs: R20 makes the
// ambient file system an explicit `fs: &mut Fs` argument; no partial writes, no crashes, nobody
// else changes the tree while the function runs), the file event log, progress channel, the
// `Secret` type as far as file_manager.rs looks into it.
// Everything `external_body` / `uninterp` / `axiom` here is an ASSUMPTION; each names the source read.
// Included inside `mod fpre { use super::*; .. }` after prelude/types.rs and the extracted
// SecretPath / ExternalFileName / FileEvent.
// ===========================================================================

/// `impl View for Uuid` (prelude/types.rs gives the struct): its 16 bytes
impl View for Uuid {
    type V = Seq<u8>;
    open spec fn view(&self) -> Seq<u8> { self.0@ }
}

// ---- errors -------------------------------------------------------------------------------------
/// `sos_client_storage::Error`: the variant constructed here + catch-all (`#[from] std::io::Error`, `#[from] sos_backend::Error`, ..)
pub enum ClientError { NotFileContent, Other }
#[verifier::external]
impl core::fmt::Debug for ClientError { fn fmt(&self, f: &mut core::fmt::Formatter<'_>) -> core::fmt::Result { Ok(()) } }
pub type ClResult<T> = core::result::Result<T, ClientError>;
/// `std::io::Error` — opaque
pub struct IoError { pub _p: () }
#[verifier::external]
impl core::fmt::Debug for IoError { fn fmt(&self, f: &mut core::fmt::Formatter<'_>) -> core::fmt::Result { Ok(()) } }
impl From<IoError> for ClientError { #[verifier::external_body] fn from(_e: IoError) -> ClientError { ClientError::Other } }
/// `sos_backend::Error` — opaque
pub struct BackendError { pub _p: () }
#[verifier::external]
impl core::fmt::Debug for BackendError { fn fmt(&self, f: &mut core::fmt::Formatter<'_>) -> core::fmt::Result { Ok(()) } }
impl From<BackendError> for ClientError { #[verifier::external_body] fn from(_e: BackendError) -> ClientError { ClientError::Other } }
/// `sos_external_files::Error` -> client error (`#[from]`)
pub struct ExtFilesError { pub _p: () }
#[verifier::external]
impl core::fmt::Debug for ExtFilesError { fn fmt(&self, f: &mut core::fmt::Formatter<'_>) -> core::fmt::Result { Ok(()) } }
impl From<ExtFilesError> for ClientError { #[verifier::external_body] fn from(_e: ExtFilesError) -> ClientError { ClientError::Other } }

// ---- paths ------------------------------------------------------------------------------------------
/// std::path::PathBuf, viewed as the text of the path
#[verifier::external_body]
pub struct PathBuf { _p: () }
impl View for PathBuf { type V = Seq<char>; uninterp spec fn view(&self) -> Seq<char>; }
/// `&Path` as handed out by `PathBuf::parent`
#[verifier::external_body]
pub struct Path { _p: () }
impl View for Path { type V = Seq<char>; uninterp spec fn view(&self) -> Seq<char>; }
pub trait PathLike { spec fn pv(&self) -> Seq<char>; }
impl PathLike for PathBuf { open spec fn pv(&self) -> Seq<char> { self@ } }
impl PathLike for &PathBuf { open spec fn pv(&self) -> Seq<char> { (*self)@ } }
impl PathLike for &Path { open spec fn pv(&self) -> Seq<char> { (*self)@ } }
impl PathBuf {
    /// `Path::parent`
    #[verifier::external_body]
    pub fn parent(&self) -> (r: Option<&Path>) { unimplemented!() }
    /// `PathBuf::as_path` (std/src/path.rs): the same path
    #[verifier::external_body]
    pub fn as_path(&self) -> (r: &Path) ensures r@ == self@, { unimplemented!() }
    /// `Path::to_path_buf` through deref: a copy of the path
    #[verifier::external_body]
    pub fn to_path_buf(&self) -> (r: PathBuf) ensures r@ == self@, { unimplemented!() }
    /// `Path::join` (std/src/path.rs) — the text of the joined path is left unspecified
    #[verifier::external_body]
    pub fn join<P: PathLike>(&self, p: P) -> (r: PathBuf) { unimplemented!() }
}
impl Clone for PathBuf {
    /// `impl Clone for PathBuf`: a copy of the path
    #[verifier::external_body]
    fn clone(&self) -> (r: PathBuf) ensures r@ == self@, { unimplemented!() }
}
impl Path {
    /// `Path::parent`
    #[verifier::external_body]
    pub fn parent(&self) -> (r: Option<&Path>) { unimplemented!() }
    /// `Path::to_path_buf`: a copy of the path
    #[verifier::external_body]
    pub fn to_path_buf(&self) -> (r: PathBuf) ensures r@ == self@, { unimplemented!() }
    /// `Path::join` — the text of the joined path is left unspecified
    #[verifier::external_body]
    pub fn join<P: PathLike>(&self, p: P) -> (r: PathBuf) { unimplemented!() }
}
/// the location of the blob (folder, secret, name) below the account's files directory
/// (crates/core/src/paths.rs:236 `into_file_path_parts`: `files_dir/<folder uuid>/<secret uuid>/<hex name>`)
pub uninterp spec fn file_path(root: Seq<char>, v: Seq<u8>, s: Seq<u8>, n: Seq<u8>) -> Seq<char>;
/// **Assumption PATH-INJ**: different (folder, secret, name) give different paths (`Path::join` with plain,
/// fixed-format components: hyphenated UUIDs and 64 hex digits; cf. PATH-JOIN in prelude/files_fs.rs)
pub broadcast axiom fn axiom_file_path_injective(root: Seq<char>, v1: Seq<u8>, s1: Seq<u8>, n1: Seq<u8>, v2: Seq<u8>, s2: Seq<u8>, n2: Seq<u8>)
    ensures #[trigger] file_path(root, v1, s1, n1) == #[trigger] file_path(root, v2, s2, n2) ==> v1 == v2 && s1 == s2 && n1 == n2;
/// `sos_core::Paths` (crates/core/src/paths.rs) — `root()` = the account's external files directory
#[verifier::external_body]
pub struct Paths { _p: () }
impl Paths {
    pub uninterp spec fn root(&self) -> Seq<char>;
    /// paths.rs:199 — the directory of a folder's blobs
    #[verifier::external_body]
    pub fn into_file_folder_path(&self, folder_id: &VaultId) -> (r: PathBuf) { unimplemented!() }
    /// paths.rs:209 — the directory of a secret's blobs
    #[verifier::external_body]
    pub fn into_file_secret_path(&self, folder_id: &VaultId, secret_id: &SecretId) -> (r: PathBuf) { unimplemented!() }
    /// paths.rs:236
    #[verifier::external_body]
    pub fn into_file_path_parts(&self, folder_id: &VaultId, secret_id: &SecretId, file_name: &ExternalFileName) -> (r: PathBuf)
        ensures r@ == file_path(self.root(), folder_id@, secret_id@, file_name.0@),
    { unimplemented!() }
}
/// R9 `Arc<Paths>`: shared, immutable
pub struct ArcPaths { pub inner: Paths }
impl ArcPaths {
    pub open spec fn root(&self) -> Seq<char> { self.inner.root() }
    #[verifier::external_body]
    pub fn into_file_folder_path(&self, folder_id: &VaultId) -> (r: PathBuf) { unimplemented!() }
    #[verifier::external_body]
    pub fn into_file_secret_path(&self, folder_id: &VaultId, secret_id: &SecretId) -> (r: PathBuf) { unimplemented!() }
    #[verifier::external_body]
    pub fn into_file_path_parts(&self, folder_id: &VaultId, secret_id: &SecretId, file_name: &ExternalFileName) -> (r: PathBuf)
        ensures r@ == file_path(self.root(), folder_id@, secret_id@, file_name.0@),
    { unimplemented!() }
}

// ---- the ghost file system --------------------------------------------------------------------------
pub ghost struct FsV { pub files: Map<Seq<char>, Seq<u8>>, pub dirs: ISet<Seq<char>> }
#[verifier::external_body]
pub struct Fs { _p: () }
impl View for Fs { type V = FsV; uninterp spec fn view(&self) -> FsV; }
/// `use sos_vfs as vfs;` (crates/vfs/src/lib.rs re-exports tokio::fs outside wasm32 / mem-fs)
pub mod vfs {
    use vstd::prelude::*;
    use super::{Fs, PathLike, IoError};
    /// tokio::fs::remove_file: unlink(2) — Ok removes the regular file; Err (missing file, a directory, permissions) changes nothing
    #[verifier::external_body]
    pub fn remove_file<P: PathLike>(fs: &mut Fs, path: P) -> (r: core::result::Result<(), IoError>)
        ensures
            r is Err ==> final(fs)@ == old(fs)@,
            r is Ok ==> old(fs)@.files.contains_key(path.pv()) && final(fs)@.files == old(fs)@.files.remove(path.pv()) && final(fs)@.dirs == old(fs)@.dirs,
    { unimplemented!() }
    /// tokio::fs::remove_dir: rmdir(2) — removes an EMPTY directory; regular files are untouched either way
    #[verifier::external_body]
    pub fn remove_dir<P: PathLike>(fs: &mut Fs, path: P) -> (r: core::result::Result<(), IoError>)
        ensures final(fs)@.files == old(fs)@.files,
    { unimplemented!() }
    /// tokio::fs::try_exists
    #[verifier::external_body]
    pub fn try_exists<P: PathLike>(fs: &Fs, path: P) -> (r: core::result::Result<bool, IoError>) { unimplemented!() }
    /// tokio::fs::create_dir_all: creates directories only
    #[verifier::external_body]
    pub fn create_dir_all<P: PathLike>(fs: &mut Fs, path: P) -> (r: core::result::Result<(), IoError>)
        ensures final(fs)@.files == old(fs)@.files,
    { unimplemented!() }
    /// tokio::fs::rename: rename(2) — atomic; Ok moves the regular file `from` to `to` (replacing it); Err (missing
    /// source, ..) changes nothing
    #[verifier::external_body]
    pub fn rename<P: PathLike, Q: PathLike>(fs: &mut Fs, from: P, to: Q) -> (r: core::result::Result<(), IoError>)
        ensures
            r is Err ==> final(fs)@ == old(fs)@,
            r is Ok ==> old(fs)@.files.contains_key(from.pv()) && final(fs)@.dirs == old(fs)@.dirs
                && final(fs)@.files == old(fs)@.files.remove(from.pv()).insert(to.pv(), old(fs)@.files[from.pv()]),
    { unimplemented!() }
}
/// R12 `$p.read_dir()?.next().is_none()` (std `Path::read_dir`: Err unless `$p` is a readable directory; the iterator
/// yields its entries): whether the directory is empty.  Reads only.
#[verifier::external_body]
pub fn vdir_is_empty(fs: &Fs, p: &PathBuf) -> (r: core::result::Result<bool, IoError>) { unimplemented!() }

// ---- progress channel ---------------------------------------------------------------------------------
/// `sos_external_files::FileProgress` (types.rs:17) — real shape
pub enum FileProgress { Write { name: String }, Move { name: String }, Delete { name: String } }
/// `tokio::sync::mpsc::Sender<FileProgress>` — opaque; `send` may fail (receiver gone), the result is ignored by the callers
#[verifier::external_body]
pub struct ProgressSender { _p: () }
pub struct SendError { pub _p: () }
impl ProgressSender {
    #[verifier::external_body]
    pub fn send(&mut self, value: FileProgress) -> (r: core::result::Result<(), SendError>) { unimplemented!() }
}

// ---- the `Secret` type as far as file_manager.rs looks into it ------------------------------------------
/// `sos_vault::secret::SecretMeta` (secret.rs) — opaque; the view is the whole value
#[verifier::external_body]
pub struct SecretMeta { _p: () }
#[verifier::external_body]
pub ghost struct SecretMetaV { _p: () }
impl View for SecretMeta { type V = SecretMetaV; uninterp spec fn view(&self) -> SecretMetaV; }
impl Clone for SecretMeta {
    /// `#[derive(Clone)]`
    #[verifier::external_body]
    fn clone(&self) -> (r: SecretMeta) ensures r@ == self@, { unimplemented!() }
}
/// `sos_vault::secret::FileContent` (secret.rs:810) — real shape of the variant that is matched; `Embedded` without its buffer
pub enum FileContent {
    Embedded { name: String, mime: String, checksum: [u8; 32] },
    External { name: String, mime: String, checksum: [u8; 32], size: u64, path: Option<PathBuf> },
}
/// everything of a non-file secret variant except its user data (which variant, and all its other fields) — opaque
#[verifier::external_body]
pub struct OtherSecret { _p: () }
/// `sos_vault::secret::Secret` (secret.rs:1089): the `File` variant with its real fields; each of the 15 other variants
/// (which file_manager.rs never matches) as `Other`: what it is (`rest`) and its `user_data` (every variant has one).
/// `UserData` and `SecretRow` are the REAL structs (extracted in units/filemgr.vrs).
pub enum Secret {
    File { content: FileContent, user_data: UserData },
    Other { rest: OtherSecret, user_data: UserData },
}
pub open spec fn ud(s: &Secret) -> UserData {
    match s { Secret::File { content, user_data } => *user_data, Secret::Other { rest, user_data } => *user_data }
}
/// the secret with another user data, everything else as it is
pub open spec fn with_ud(s: Secret, u: UserData) -> Secret {
    match s { Secret::File { content, user_data } => Secret::File { content, user_data: u }, Secret::Other { rest, user_data } => Secret::Other { rest, user_data: u } }
}
impl Secret {
    /// secret.rs `Secret::user_data`: the `user_data` field of the variant
    #[verifier::external_body]
    pub fn user_data(&self) -> (r: &UserData)
        ensures *r == ud(self),
    { unimplemented!() }
    /// secret.rs:1715 `Secret::user_data_mut`: `&mut` to the `user_data` field of the variant
    #[verifier::external_body]
    pub fn user_data_mut(&mut self) -> (r: &mut UserData)
        ensures *r == ud(old(self)), *final(self) == with_ud(*old(self), *final(r)),
    { unimplemented!() }
}
pub open spec fn opt_str(o: Option<String>) -> Option<Seq<char>> { match o { Some(s) => Some(s@), None => None } }
impl UserData {
    /// secret.rs `comment`: `self.comment.as_ref().map(|s| &s[..])` — the comment as a str
    #[verifier::external_body]
    pub fn comment(&self) -> (r: Option<&str>)
        ensures (match r { Some(s) => Some(s@), None => None }) == opt_str(self.comment),
    { unimplemented!() }
    /// secret.rs `recovery_note`: `self.recovery_note.as_ref().map(|s| &s[..])`
    #[verifier::external_body]
    pub fn recovery_note(&self) -> (r: Option<&str>)
        ensures (match r { Some(s) => Some(s@), None => None }) == opt_str(self.recovery_note),
    { unimplemented!() }
}
impl Clone for UserData {
    /// `#[derive(Clone)]` on UserData: an equal value
    #[verifier::external_body]
    fn clone(&self) -> (r: UserData) ensures r == *self, { unimplemented!() }
}
impl Clone for SecretRow {
    /// `#[derive(Clone)]` on SecretRow: an equal value
    #[verifier::external_body]
    fn clone(&self) -> (r: SecretRow) ensures r == *self, { unimplemented!() }
}
/// `Option<PathBuf>::clone`
#[verifier::external_body]
pub fn opt_path_clone(o: &Option<PathBuf>) -> (r: Option<PathBuf>) ensures r == *o, { unimplemented!() }
/// `sos_vault::Summary` — only the id is read here
#[verifier::external_body]
pub struct Summary { _p: () }
impl Summary {
    pub uninterp spec fn sid(&self) -> VaultId;
    #[verifier::external_body]
    pub fn id(&self) -> (r: &VaultId) ensures *r == self.sid(), { unimplemented!() }
}
/// an external-file secret and the name of its blob
pub open spec fn ext_name(s: &Secret) -> Option<Seq<u8>> {
    match s { Secret::File { content: FileContent::External { checksum, .. }, .. } => Some(checksum@), _ => None }
}
/// `String::to_owned` (`impl ToOwned for str` through deref): a copy of the string
#[verifier::external_body]
pub fn string_to_owned(s: &String) -> (r: String)
    ensures r@ == s@,
{ unimplemented!() }

// ---- file event log -----------------------------------------------------------------------------------------
/// `sos_backend::FileEventLog` — ghost view: the file events appended so far (unit log `apply` [append_exact])
#[verifier::external_body]
pub struct FileEventLog { _p: () }
impl FileEventLog {
    pub uninterp spec fn evs(&self) -> Seq<FileEventV>;
    #[verifier::external_body]
    pub fn apply(&mut self, events: &[FileEvent]) -> (r: core::result::Result<(), BackendError>)
        ensures
            r is Ok ==> final(self).evs() == old(self).evs() + fviews(events@),
            r is Err ==> final(self).evs() == old(self).evs(),
    { unimplemented!() }
}
/// R9 `Arc<RwLock<FileEventLog>>`
pub struct VRwLock<T> { pub inner: T }
impl<T> VRwLock<T> {
    #[verifier::external_body]
    pub fn write(&mut self) -> (g: &mut T)
        ensures *g == old(self).inner, final(self).inner == *final(g),
    { &mut self.inner }
}
/// `secrecy::SecretString` — opaque
#[verifier::external_body]
pub struct SecretString { _p: () }

// ---- std HashMap as used by delete_files (dedupe of checksums) -------------------------------------------------
/// std `HashMap<K, V>`; view: map from key VIEWS to values (`&[u8; 32]`: Eq/Hash on the bytes)
#[verifier::external_body]
#[verifier::reject_recursive_types(K)]
#[verifier::reject_recursive_types(V)]
pub struct HashMap<K, V> { _p: core::marker::PhantomData<(K, V)> }
impl<K: View, V> View for HashMap<K, V> {
    type V = Map<K::V, V>;
    uninterp spec fn view(&self) -> Map<K::V, V>;
}
impl<K: View, V> HashMap<K, V> {
    /// `HashMap::new`
    #[verifier::external_body]
    pub fn new() -> (r: Self) ensures r@ == Map::<K::V, V>::empty(), { unimplemented!() }
    /// `HashMap::insert`
    #[verifier::external_body]
    pub fn insert(&mut self, k: K, v: V) -> (r: Option<V>) ensures final(self)@ == old(self)@.insert(k@, v), { unimplemented!() }
    /// `HashMap::len` (std/src/collections/hash/map.rs): the number of entries
    #[verifier::external_body]
    pub fn len(&self) -> (r: usize) ensures r == self@.dom().len(), { unimplemented!() }
    /// `HashMap::is_empty`
    #[verifier::external_body]
    pub fn is_empty(&self) -> (r: bool) ensures r == (self@ == Map::<K::V, V>::empty()), { unimplemented!() }
    /// `HashMap::contains_key` (keys compared by `Eq`, here: by view)
    #[verifier::external_body]
    pub fn contains_key(&self, k: &K) -> (r: bool) ensures r == self@.contains_key(k@), { unimplemented!() }
    /// `HashMap::get`
    #[verifier::external_body]
    pub fn get(&self, k: &K) -> (r: Option<&V>)
        ensures r is Some <==> self@.contains_key(k@), r is Some ==> *r->Some_0 == self@[k@],
    { unimplemented!() }
    /// `HashMap::remove`
    #[verifier::external_body]
    pub fn remove(&mut self, k: &K) -> (r: Option<V>)
        ensures final(self)@ == old(self)@.remove(k@), r is Some <==> old(self)@.contains_key(k@), r is Some ==> r->Some_0 == old(self)@[k@],
    { unimplemented!() }
    /// `HashMap::clear`
    #[verifier::external_body]
    pub fn clear(&mut self) ensures final(self)@ == Map::<K::V, V>::empty(), { unimplemented!() }
}
/// `std::collections::hash_map::IntoIter<K, V>`: every entry once, in an unspecified order
#[verifier::external_body]
#[verifier::reject_recursive_types(K)]
#[verifier::reject_recursive_types(V)]
pub struct HashMapIntoIter<K, V> { _p: core::marker::PhantomData<(K, V)> }
impl<K, V> HashMapIntoIter<K, V> {
    pub uninterp spec fn rest(&self) -> Seq<(K, V)>;
}
impl<K, V> Iterator for HashMapIntoIter<K, V> {
    type Item = (K, V);
    /// contract inherited from vstd's Iterator specification (`IteratorSpec`)
    #[verifier::external_body]
    fn next(&mut self) -> (r: Option<(K, V)>) { unimplemented!() }
}
impl<K, V> vstd::std_specs::iter::IteratorSpecImpl for HashMapIntoIter<K, V> {
    open spec fn obeys_prophetic_iter_laws(&self) -> bool { true }
    #[verifier::prophetic]
    open spec fn remaining(&self) -> Seq<(K, V)> { self.rest() }
    #[verifier::prophetic]
    open spec fn will_return_none(&self) -> bool { true }
    open spec fn decrease(&self) -> Option<nat> { Some(self.rest().len()) }
    open spec fn peek(&self, i: int) -> Option<(K, V)> {
        if 0 <= i < self.rest().len() { Some(self.rest()[i]) } else { None }
    }
}
impl<K: View, V> IntoIterator for HashMap<K, V> {
    type Item = (K, V);
    type IntoIter = HashMapIntoIter<K, V>;
    /// hash_map.rs `impl IntoIterator for HashMap`: every entry exactly once (keys pairwise different), order unspecified
    #[verifier::external_body]
    fn into_iter(self) -> (r: HashMapIntoIter<K, V>)
        ensures
            forall|i: int, j: int| 0 <= i < j < r.rest().len() ==> (#[trigger] r.rest()[i]).0@ != (#[trigger] r.rest()[j]).0@,
            forall|i: int| 0 <= i < r.rest().len() ==> self@.contains_key((#[trigger] r.rest()[i]).0@) && self@[r.rest()[i].0@] == r.rest()[i].1,
            forall|k: K::V| self@.contains_key(k) ==> exists|i: int| 0 <= i < r.rest().len() && (#[trigger] r.rest()[i]).0@ == k,
    { unimplemented!() }
}
/// R12 `events.into_iter().map(FileMutationEvent::Delete).collect()` (file_manager.rs:275): every event wrapped, in order
#[verifier::external_body]
pub fn vmap_delete(events: Vec<FileEvent>) -> (r: Vec<FileMutationEvent>)
    ensures r@.len() == events@.len(), forall|i: int| 0 <= i < r@.len() ==> #[trigger] r@[i] == FileMutationEvent::Delete(events@[i]),
{ unimplemented!() }
/// R12 `events.into_iter().map($f).collect()` into a `Vec` (core `Iterator::map` + `collect`): `f` applied to every element, in order;
/// `f` stays the repository's text (the unit wraps it in a closure whose `ensures` is the specification)
#[verifier::external_body]
pub fn vmap_events<F: Fn(FileEvent) -> FileMutationEvent>(events: Vec<FileEvent>, f: F) -> (r: Vec<FileMutationEvent>)
    requires forall|e: FileEvent| #[trigger] f.requires((e,)),
    ensures r@.len() == events@.len(), forall|i: int| 0 <= i < r@.len() ==> f.ensures((events@[i],), #[trigger] r@[i]),
{ unimplemented!() }
/// `std::fs::ReadDir` (std/src/fs.rs): the iterator over the entries of a directory, `Item = io::Result<DirEntry>`; nothing is said
/// about the entries (the pruning of empty directories is not part of the blob contract)
#[verifier::external_body]
pub struct ReadDir { _p: () }
/// `std::fs::DirEntry` — opaque
#[verifier::external_body]
pub struct DirEntry { _p: () }
impl ReadDir {
    /// `Iterator::next` of `ReadDir`
    #[verifier::external_body]
    pub fn next(&mut self) -> (r: Option<core::result::Result<DirEntry, IoError>>) { unimplemented!() }
    /// `Iterator::count`
    #[verifier::external_body]
    pub fn count(self) -> (r: usize) { unimplemented!() }
}
/// R12 `$p.read_dir()` (std `Path::read_dir` = `fs::read_dir`: Err unless `$p` is a readable directory).  Reads only.
#[verifier::external_body]
pub fn vread_dir(fs: &Fs, p: &PathBuf) -> (r: core::result::Result<ReadDir, IoError>) { unimplemented!() }

// ---- write_update_checksum: callees that are not under contract here, std helpers ---------------------------------
/// error payload of `<[u8] as TryInto<[u8; N]>>`
pub struct TryFromSliceError { pub _p: () }
#[verifier::external]
impl core::fmt::Debug for TryFromSliceError { fn fmt(&self, f: &mut core::fmt::Formatter<'_>) -> core::fmt::Result { Ok(()) } }
impl From<TryFromSliceError> for ClientError { #[verifier::external_body] fn from(_e: TryFromSliceError) -> ClientError { ClientError::Other } }
/// R12a `$s.as_slice().try_into()` with target `[u8; N]` (as in prelude/base.rs): Ok iff the slice has exactly N elements
#[verifier::external_body]
pub fn slice_to_array<const N: usize>(s: &[u8]) -> (r: core::result::Result<[u8; N], TryFromSliceError>)
    ensures r is Ok <==> s@.len() == N, r is Ok ==> r->Ok_0@ == s@,
{ unimplemented!() }
/// file_manager.rs:563 `get_file_sources` (not under contract: a nested fn item): the files named by `path: Some(..)`
#[verifier::external_body]
pub fn get_file_sources(secret: &Secret) -> (r: Vec<FileSource>) { unimplemented!() }
/// `hex::encode` (hex-0.4): two lower-case hex digits per byte
pub uninterp spec fn hex_enc(b: Seq<u8>) -> Seq<char>;
#[verifier::external_body]
pub fn hex_encode(b: &Vec<u8>) -> (r: String) ensures r@ == hex_enc(b@), { unimplemented!() }
/// R12 `file_name.parse()?` at type ExternalFileName (crates/core/src/file.rs:67 `FromStr`: `hex::decode(s)?` must give 32 bytes;
/// unit files puts it under contract): the name whose hex text this is
#[verifier::external_body]
pub fn parse_external_file_name(s: &String) -> (r: core::result::Result<ExternalFileName, ClientError>)
    ensures r is Ok ==> hex_enc(r->Ok_0.0@) == s@,
{ unimplemented!() }
/// **Assumption HEX-INJ**: hex encoding is injective
pub broadcast axiom fn axiom_hex_injective(a: Seq<u8>, b: Seq<u8>)
    ensures #[trigger] hex_enc(a) == #[trigger] hex_enc(b) ==> a == b;
impl ExternalFileManager {
    /// file_manager.rs:70 -> external_files.rs:84 `FileStorage::encrypt_file_storage` (unit files [name_is_digest]): the
    /// encrypted blob is written at `files_dir/<folder>/<secret>/<hex(digest)>`, `digest` = SHA-256 of what was written
    /// (32 bytes); no other regular file changes (R20: explicit `fs`)
    #[verifier::external_body]
    pub fn encrypt_file_storage(&self, vault_id: &VaultId, secret_id: &SecretId, source: &PathBuf, fs: &mut Fs) -> (r: ClResult<EncryptedFile>)
        ensures
            r is Err ==> final(fs)@.files == old(fs)@.files,
            r is Ok ==> r->Ok_0.digest@.len() == 32 && ({ let p = file_path(self.paths.root(), vault_id@, secret_id@, r->Ok_0.digest@);
                final(fs)@.files.contains_key(p) && final(fs)@.files == old(fs)@.files.insert(p, final(fs)@.files[p]) }),
    { unimplemented!() }
}
/// R12 `$v.iter().find(|x| $body)` on a Vec (core::slice::Iter + Iterator::find): the first element for which the closure
/// returns true (same text as prelude/archive_zip.rs; verified, not assumed)
pub fn vec_iter_find<'a, T, F: Fn(&T) -> bool>(v: &'a Vec<T>, f: F) -> (r: Option<&'a T>)
    requires forall|x: &T| call_requires(f, (x,)),
    ensures
        r matches Some(x) ==> exists|i: int| 0 <= i < v@.len() && *x == #[trigger] v@[i] && call_ensures(f, (&v@[i],), true),
        r is None ==> forall|i: int| #![trigger v@[i]] 0 <= i < v@.len() ==> call_ensures(f, (&v@[i],), false),
{
    let mut i: usize = 0;
    while i < v.len()
        invariant
            i <= v@.len(),
            forall|x: &T| call_requires(f, (x,)),
            forall|j: int| #![trigger v@[j]] 0 <= j < i ==> call_ensures(f, (&v@[j],), false),
        decreases v@.len() - i,
    {
        if f(&v[i]) { return Some(&v[i]); }
        i += 1;
    }
    None
}
/// R12 `$v.iter().enumerate()` on a Vec (core::iter::Enumerate over core::slice::Iter): (0, &v[0]), (1, &v[1]), .. in order
#[verifier::external_body]
#[verifier::reject_recursive_types(T)]
pub struct VecEnumerate<'a, T> { _p: core::marker::PhantomData<&'a T> }
impl<'a, T> VecEnumerate<'a, T> {
    pub uninterp spec fn rest(&self) -> Seq<(usize, &'a T)>;
}
impl<'a, T> Iterator for VecEnumerate<'a, T> {
    type Item = (usize, &'a T);
    #[verifier::external_body]
    fn next(&mut self) -> (r: Option<(usize, &'a T)>) { unimplemented!() }
}
impl<'a, T> vstd::std_specs::iter::IteratorSpecImpl for VecEnumerate<'a, T> {
    open spec fn obeys_prophetic_iter_laws(&self) -> bool { true }
    #[verifier::prophetic]
    open spec fn remaining(&self) -> Seq<(usize, &'a T)> { self.rest() }
    #[verifier::prophetic]
    open spec fn will_return_none(&self) -> bool { true }
    open spec fn decrease(&self) -> Option<nat> { Some(self.rest().len()) }
    open spec fn peek(&self, i: int) -> Option<(usize, &'a T)> {
        if 0 <= i < self.rest().len() { Some(self.rest()[i]) } else { None }
    }
}
#[verifier::external_body]
pub fn venumerate<'a, T>(v: &'a Vec<T>) -> (r: VecEnumerate<'a, T>)
    ensures r.rest().len() == v@.len(), forall|i: int| 0 <= i < v@.len() ==> (#[trigger] r.rest()[i]).0 == i && *r.rest()[i].1 == v@[i],
{ unimplemented!() }
/// R12 `$xs.into_iter().map($f).collect::<Vec<_>>()` on a Vec (by value): `$f` once per element, in order
#[verifier::external_body]
pub fn vmap_into_collect<T, U, F: Fn(T) -> U>(f: F, xs: Vec<T>) -> (r: Vec<U>)
    requires forall|x: T| #[trigger] f.requires((x,)),
    ensures r@.len() == xs@.len(), forall|i: int| 0 <= i < xs@.len() ==> f.ensures((xs@[i],), #[trigger] r@[i]),
{ unimplemented!() }

// ---- update_files: callees not under contract, derives ------------------------------------------------------------
// ---- equality as the real `PartialEq` impls compute it (used by get_file_secret_diff) -------------------------------
/// `impl PartialEq for Secret` (crates/vault/src/secret.rs:1797, read): per variant, every field compared — `File`:
/// `content_a == content_b && user_data_a == user_data_b` with `impl PartialEq for FileContent` (:919: name, mime, checksum,
/// size, path) and the derived `PartialEq` of UserData (fields, comment, recovery_note; a field row: id, meta, secret;
/// `impl PartialEq for SecretMeta` :363 compares kind, label, urn only).  The stand-in enum collapses 15 variants, so the
/// relation is named, not spelled out; nothing but its name is used (no reflexivity, no relation to `==`).
pub uninterp spec fn secret_eq(a: Secret, b: Secret) -> bool;
impl PartialEq for Secret {
    #[verifier::external_body]
    fn eq(&self, other: &Self) -> (r: bool)
        ensures r == secret_eq(*self, *other),
    { unimplemented!() }
}
impl vstd::std_specs::cmp::PartialEqSpecImpl for Secret {
    open spec fn obeys_eq_spec() -> bool { true }
    open spec fn eq_spec(&self, other: &Secret) -> bool { secret_eq(*self, *other) }
}
/// `impl PartialEq for SecretMeta` (secret.rs:363): kind, label and urn
pub uninterp spec fn meta_eq(a: SecretMetaV, b: SecretMetaV) -> bool;
impl PartialEq for SecretMeta {
    #[verifier::external_body]
    fn eq(&self, other: &Self) -> (r: bool)
        ensures r == meta_eq(self@, other@),
    { unimplemented!() }
}
impl vstd::std_specs::cmp::PartialEqSpecImpl for SecretMeta {
    open spec fn obeys_eq_spec() -> bool { true }
    open spec fn eq_spec(&self, other: &SecretMeta) -> bool { meta_eq(self@, other@) }
}
impl Summary {
    /// all fields of the summary (version, id, name, cipher, kdf, flags): what the derived `PartialEq` compares
    pub uninterp spec fn all_fields(&self) -> Seq<u8>;
}
impl PartialEq for Summary {
    /// `#[derive(PartialEq)]` on Summary (vault.rs:172): all fields equal
    #[verifier::external_body]
    fn eq(&self, other: &Self) -> (r: bool)
        ensures r == (self.all_fields() == other.all_fields()),
    { unimplemented!() }
}
impl vstd::std_specs::cmp::PartialEqSpecImpl for Summary {
    open spec fn obeys_eq_spec() -> bool { true }
    open spec fn eq_spec(&self, other: &Summary) -> bool { self.all_fields() == other.all_fields() }
}
impl PartialEq for Uuid {
    /// `uuid::Uuid` equality: derived `PartialEq` on the 16 bytes
    #[verifier::external_body]
    fn eq(&self, other: &Self) -> (r: bool)
        ensures r == (self@ == other@),
    { self.0 == other.0 }
}
impl vstd::std_specs::cmp::PartialEqSpecImpl for Uuid {
    open spec fn obeys_eq_spec() -> bool { true }
    open spec fn eq_spec(&self, other: &Uuid) -> bool { self@ == other@ }
}
impl Clone for FileMutationEvent {
    /// `#[derive(Clone)]` on FileMutationEvent (types.rs:67): an equal value
    #[verifier::external_body]
    fn clone(&self) -> (r: FileMutationEvent) ensures r == *self, { unimplemented!() }
}
