// ===========================================================================
// prelude/relay_helpers.rs — std helpers for unit relay (R12 rewrites)
// ===========================================================================

/// `&v[a..b]` (Index<Range<usize>> for Vec): panics unless a <= b <= len — the
/// precondition IS the bounds obligation of the original expression.
#[verifier::external_body]
pub fn vslice(v: &Vec<u8>, a: usize, b: usize) -> (r: &[u8])
    requires a <= b <= v@.len(), /*@PL:slice_in_bounds*/
    ensures r@ == v@.subrange(a as int, b as int),
{ &v[a..b] }

/// `&v[a..]`
#[verifier::external_body]
pub fn vslice_from(v: &Vec<u8>, a: usize) -> (r: &[u8])
    requires a <= v@.len(), /*@PL:slice_in_bounds*/
    ensures r@ == v@.subrange(a as int, v@.len() as int),
{ &v[a..] }

/// `std::mem::size_of::<u16>()`
pub fn size_of_u16() -> (r: usize)
    ensures r == 2,
{ 2 }

/// `u16::from_le_bytes`
#[verifier::external_body]
pub fn u16_from_le_bytes(b: [u8; 2]) -> (r: u16)
    ensures r == de16(b@),
{ u16::from_le_bytes(b) }

/// `u16::from_be_bytes` (std: most significant byte first).  Offered so that a
/// change of the byte order in the extracted code still composes and is judged
/// by the frame contract (which is little endian) instead of losing the rewrite.
#[verifier::external_body]
pub fn u16_from_be_bytes(b: [u8; 2]) -> (r: u16)
    ensures r == ((b@[1] as u16) | ((b@[0] as u16) << 8)),
{ u16::from_be_bytes(b) }

/// `<[u8]>::to_vec`
#[verifier::external_body]
pub fn slice_to_vec(s: &[u8]) -> (r: Vec<u8>)
    ensures r@ == s@,
{ s.to_vec() }

/// `Vec::extend_from_slice`
#[verifier::external_body]
pub fn vextend_from_slice(v: &mut Vec<u8>, s: &[u8])
    ensures final(v)@ == old(v)@ + s@,
{ v.extend_from_slice(s) }

/// `Vec::with_capacity(n)` where n is the length of (a part of) the input
/// already held in memory: allocation proportional to the input (C15).
pub fn vec_with_capacity_of_input(n: usize, Ghost(input_len): Ghost<nat>) -> (v: Vec<u8>)
    requires n <= input_len, /*@PL:alloc_proportional*/
    ensures v@.len() == 0,
{ Vec::with_capacity(n) }

#[derive(Debug)]
pub enum ProtoError { EndOfFile }
pub type ProtoResult<T> = core::result::Result<T, ProtoError>;
